// C17 -- "string entry points fail cleanly": the error path of parse_request is
//     Err(error) => Err(format_parse_error(input, error))
// and format_parse_error turns the scanner's error slice into a byte offset into the request text, which
// detect_specific_sparql_error / check_missing_prefix / check_missing_triple_separator then use as `&input[..offset]`.
// The harness runs a real token scanner (extracted verbatim, T3) on EVERY well-formed UTF-8 input of a fixed length,
// computes the offset and the annotated span with the statements copied verbatim from format_parse_error (T3s,
// `vk_error_span`), and performs the slices the renderer performs: a panic here is the crash of the error-preserving
// entry points.

/// The non-ASCII alphabet of the harnesses: one representative per (encoded length, Unicode class) pair, so that the
/// class stubs below are EXACT on every character an input can contain (a counterexample then always replays natively;
/// the first version used a parity proxy over all code points and produced non-reproducing counterexamples on mutants).
///   2 bytes: é U+00E9 alphabetic, × U+00D7 neither, U+00A0 white space, ٣ U+0663 numeric
///   3 bytes: 中 U+4E2D alphabetic, € U+20AC neither, U+2003 white space
///   4 bytes: 𝐀 U+1D400 alphabetic, 😀 U+1F600 neither
/// ASCII is unrestricted. Byte-level check (no std validation loop): implies UTF-8 well-formedness.
fn wf<const L: usize>(b: &[u8; L]) -> bool {
    let mut i = 0;
    while i < L {
        let x = b[i];
        if x < 0x80 { i += 1; continue; }
        let r = L - i;
        if r >= 2 && ((x == 0xC3 && (b[i + 1] == 0xA9 || b[i + 1] == 0x97)) || (x == 0xC2 && b[i + 1] == 0xA0) || (x == 0xD9 && b[i + 1] == 0xA3)) { i += 2; continue; }
        if r >= 3 && ((x == 0xE4 && b[i + 1] == 0xB8 && b[i + 2] == 0xAD) || (x == 0xE2 && b[i + 1] == 0x82 && b[i + 2] == 0xAC) || (x == 0xE2 && b[i + 1] == 0x80 && b[i + 2] == 0x83)) { i += 3; continue; }
        if r >= 4 && x == 0xF0 && ((b[i + 1] == 0x9D && b[i + 2] == 0x90 && b[i + 3] == 0x80) || (b[i + 1] == 0x9F && b[i + 2] == 0x98 && b[i + 3] == 0x80)) { i += 4; continue; }
        return false;
    }
    true
}
fn stub_alpha(c: char) -> bool {
    if (c as u32) < 128 { let b = c as u8; (b >= b'a' && b <= b'z') || (b >= b'A' && b <= b'Z') } else { c == '\u{E9}' || c == '\u{4E2D}' || c == '\u{1D400}' }
}
fn stub_alnum(c: char) -> bool {
    if (c as u32) < 128 { let b = c as u8; (b >= b'0' && b <= b'9') || (b >= b'a' && b <= b'z') || (b >= b'A' && b <= b'Z') } else { stub_alpha(c) || c == '\u{663}' }
}
fn stub_ws(c: char) -> bool {
    if (c as u32) < 128 { let b = c as u8; b == b' ' || (b >= 9 && b <= 13) } else { c == '\u{A0}' || c == '\u{2003}' }
}

macro_rules! errpos {
    ($name:ident, $len:expr, $unw:expr, $scanner:ident) => {
        #[kani::proof]
        #[kani::unwind($unw)]
        #[kani::stub(char::is_alphanumeric, stub_alnum)]
        #[kani::stub(char::is_alphabetic, stub_alpha)]
        #[kani::stub(char::is_whitespace, stub_ws)]
        fn $name() {
            let buf: [u8; $len] = kani::any();
            kani::assume(wf::<$len>(&buf));
            let s = unsafe { std::str::from_utf8_unchecked(&buf) };
            let mut rejected = false;
            match $scanner(s) {
                Err(nom::Err::Error(e)) | Err(nom::Err::Failure(e)) => {
                    rejected = true;
                    let (offset, span) = vk_error_span(s, e.input);
                    assert!(offset <= s.len(), "the error offset lies inside the request text");
                    let before_error = &s[..offset]; // error_handler.rs: detect_specific_sparql_error, check_missing_prefix, ...
                    assert!(before_error.len() == offset);
                    // annotate_snippets (renderer/source_map.rs: span_to_locations) slices the source at both span ends
                    assert!(span.start <= span.end && span.end <= s.len(), "the annotated span lies inside the request text");
                    let up_to_start = &s[..span.start];
                    let up_to_end = &s[..span.end];
                    assert!(up_to_start.len() <= up_to_end.len());
                }
                _ => {}
            }
            kani::cover!(rejected, "some input is rejected");
            kani::cover!(rejected && buf[$len - 1] >= 0x80, "a rejected input ending in a multi-byte character");
        }
    };
}
errpos!(error_offset_prefixed_name_l2, 2, 6, sparql_prefixed_name);
errpos!(error_offset_prefixed_name_l3, 3, 7, sparql_prefixed_name);
errpos!(error_offset_prefixed_name_l4, 4, 8, sparql_prefixed_name);
errpos!(error_offset_blank_node_l4, 4, 8, sparql_blank_node);
errpos!(error_offset_iri_l3, 3, 7, sparql_iri);
errpos!(error_offset_variable_l3, 3, 7, sparql_variable);
errpos!(error_offset_numeric_literal_l3, 3, 7, sparql_numeric_literal);
