// C16 -- hand-written byte-offset token scanners of kolibrie/src/parser.rs (extracted verbatim, T3):
// totality ("never crash") and slice faithfulness on EVERY well-formed UTF-8 input of a fixed length.

/// The non-ASCII alphabet of the harnesses: one representative per (encoded length, Unicode class) pair, so that the
/// class stubs below are EXACT on every character an input can contain (a counterexample then always replays natively;
/// the first version used a parity proxy over all code points and produced non-reproducing counterexamples on mutants).
///   2 bytes: é U+00E9 alphabetic, × U+00D7 neither, U+00A0 white space, ٣ U+0663 numeric
///   3 bytes: 中 U+4E2D alphabetic, € U+20AC neither, U+2003 white space
///   4 bytes: 𝐀 U+1D400 alphabetic, 😀 U+1F600 neither
/// ASCII is unrestricted. Byte-level check (no std validation loop): implies UTF-8 well-formedness.
fn wf<const L: usize>(b: &[u8; L]) -> bool {
    let mut i = 0;
    while i < L {
        let x = b[i];
        if x < 0x80 { i += 1; continue; }
        let r = L - i;
        if r >= 2 && ((x == 0xC3 && (b[i + 1] == 0xA9 || b[i + 1] == 0x97)) || (x == 0xC2 && b[i + 1] == 0xA0) || (x == 0xD9 && b[i + 1] == 0xA3)) { i += 2; continue; }
        if r >= 3 && ((x == 0xE4 && b[i + 1] == 0xB8 && b[i + 2] == 0xAD) || (x == 0xE2 && b[i + 1] == 0x82 && b[i + 2] == 0xAC) || (x == 0xE2 && b[i + 1] == 0x80 && b[i + 2] == 0x83)) { i += 3; continue; }
        if r >= 4 && x == 0xF0 && ((b[i + 1] == 0x9D && b[i + 2] == 0x90 && b[i + 3] == 0x80) || (b[i + 1] == 0x9F && b[i + 2] == 0x98 && b[i + 3] == 0x80)) { i += 4; continue; }
        return false;
    }
    true
}
fn stub_alpha(c: char) -> bool {
    if (c as u32) < 128 { let b = c as u8; (b >= b'a' && b <= b'z') || (b >= b'A' && b <= b'Z') } else { c == '\u{E9}' || c == '\u{4E2D}' || c == '\u{1D400}' }
}
fn stub_alnum(c: char) -> bool {
    if (c as u32) < 128 { let b = c as u8; (b >= b'0' && b <= b'9') || (b >= b'a' && b <= b'z') || (b >= b'A' && b <= b'Z') } else { stub_alpha(c) || c == '\u{663}' }
}
fn stub_ws(c: char) -> bool {
    if (c as u32) < 128 { let b = c as u8; b == b' ' || (b >= 9 && b <= 13) } else { c == '\u{A0}' || c == '\u{2003}' }
}

/// faithfulness, as pointer facts about the returned slices (no second scan, no memcmp):
/// tok and rest are adjacent sub-slices of the input, rest runs to the end of the input (nothing invented,
/// nothing dropped after the token), tok is non-empty, and nothing is skipped in front of the token unless the
/// input starts with something skippable (whitespace, a '#' comment, or a non-ASCII character that may be
/// Unicode whitespace). What exactly is skipped is decided by the skip_ws harnesses.
fn faithful(input: &str, rest: &str, tok: &str) {
    assert!(tok.len() >= 1);
    let base = input.as_ptr() as usize;
    let t0 = tok.as_ptr() as usize;
    let r0 = rest.as_ptr() as usize;
    assert!(t0 >= base);
    assert!(r0 == t0 + tok.len());
    assert!(r0 + rest.len() == base + input.len());
    let first = input.as_bytes()[0];
    let skippable = first == b' ' || (first >= 9 && first <= 13) || first == b'#' || first >= 0x80;
    if !skippable { assert!(t0 == base); }
}

macro_rules! scan {
    ($name:ident, $len:expr, $unw:expr, $scanner:ident, |$tok:ident, $rest:ident| $shape:block) => {
        #[kani::proof]
        #[kani::unwind($unw)]
        #[kani::stub(char::is_alphanumeric, stub_alnum)]
        #[kani::stub(char::is_alphabetic, stub_alpha)]
        #[kani::stub(char::is_whitespace, stub_ws)]
        fn $name() {
            let buf: [u8; $len] = kani::any();
            kani::assume(wf::<$len>(&buf));
            let s = unsafe { std::str::from_utf8_unchecked(&buf) };
            let r = $scanner(s);
            let accepted = r.is_ok();
            if let Ok(($rest, $tok)) = r {
                faithful(s, $rest, $tok);
                $shape
            }
            kani::cover!(accepted, "some input is accepted");
            kani::cover!(!accepted && buf[0] >= 0x80, "some input starting with a multi-byte character is rejected");
        }
    };
}
// the same for 1-byte inputs (no multi-byte character fits: that cover would be unsatisfiable)
macro_rules! scan1 {
    ($name:ident, $len:expr, $unw:expr, $scanner:ident, |$tok:ident, $rest:ident| $shape:block) => {
        #[kani::proof]
        #[kani::unwind($unw)]
        #[kani::stub(char::is_alphanumeric, stub_alnum)]
        #[kani::stub(char::is_alphabetic, stub_alpha)]
        #[kani::stub(char::is_whitespace, stub_ws)]
        fn $name() {
            let buf: [u8; $len] = kani::any();
            kani::assume(wf::<$len>(&buf));
            let s = unsafe { std::str::from_utf8_unchecked(&buf) };
            let r = $scanner(s);
            let accepted = r.is_ok();
            if let Ok(($rest, $tok)) = r {
                faithful(s, $rest, $tok);
                $shape
            }
            kani::cover!(accepted, "some input is accepted");
        }
    };
}
macro_rules! scan_nocover_accept {
    ($name:ident, $len:expr, $unw:expr, $scanner:ident) => {
        #[kani::proof]
        #[kani::unwind($unw)]
        #[kani::stub(char::is_alphanumeric, stub_alnum)]
        #[kani::stub(char::is_alphabetic, stub_alpha)]
        #[kani::stub(char::is_whitespace, stub_ws)]
        fn $name() {
            let buf: [u8; $len] = kani::any();
            kani::assume(wf::<$len>(&buf));
            let s = unsafe { std::str::from_utf8_unchecked(&buf) };
            if let Ok((rest, tok)) = $scanner(s) { faithful(s, rest, tok); }
            kani::cover!(true, "end reached");
        }
    };
}

fn b0(t: &str) -> u8 { t.as_bytes()[0] }
fn bl(t: &str) -> u8 { t.as_bytes()[t.len() - 1] }
fn num_bytes_ok(t: &str) -> bool {
    let b = t.as_bytes();
    let mut i = 0;
    while i < b.len() { let x = b[i]; if !((x >= b'0' && x <= b'9') || x == b'+' || x == b'-' || x == b'.' || x == b'e' || x == b'E') { return false; } i += 1; }
    true
}
fn has_colon(t: &str) -> bool {
    let b = t.as_bytes();
    let mut i = 0;
    while i < b.len() { if b[i] == b':' { return true; } i += 1; }
    false
}

// ---- L = 1
scan_nocover_accept!(variable_l1, 1, 5, sparql_variable);
scan_nocover_accept!(iri_l1, 1, 5, sparql_iri);
scan_nocover_accept!(blank_node_l1, 1, 5, sparql_blank_node);
scan1!(prefixed_name_l1, 1, 5, sparql_prefixed_name, |tok, rest| { assert!(has_colon(tok)); });
scan1!(numeric_literal_l1, 1, 5, sparql_numeric_literal, |tok, rest| { assert!(num_bytes_ok(tok)); });
// ---- L = 2
scan!(variable_l2, 2, 6, sparql_variable, |tok, rest| { assert!(tok.len() >= 2 && (b0(tok) == b'?' || b0(tok) == b'$')); });
scan!(iri_l2, 2, 6, sparql_iri, |tok, rest| { assert!(tok.len() >= 2 && b0(tok) == b'<' && bl(tok) == b'>'); });
scan_nocover_accept!(blank_node_l2, 2, 6, sparql_blank_node);
scan!(prefixed_name_l2, 2, 6, sparql_prefixed_name, |tok, rest| { assert!(has_colon(tok)); });
scan!(numeric_literal_l2, 2, 6, sparql_numeric_literal, |tok, rest| { assert!(num_bytes_ok(tok)); });
// ---- L = 3
scan!(variable_l3, 3, 7, sparql_variable, |tok, rest| { assert!(tok.len() >= 2 && (b0(tok) == b'?' || b0(tok) == b'$')); });
scan!(iri_l3, 3, 7, sparql_iri, |tok, rest| { assert!(tok.len() >= 2 && b0(tok) == b'<' && bl(tok) == b'>'); });
scan!(blank_node_l3, 3, 7, sparql_blank_node, |tok, rest| { assert!(tok.len() >= 3 && b0(tok) == b'_' && tok.as_bytes()[1] == b':'); });
scan!(prefixed_name_l3, 3, 7, sparql_prefixed_name, |tok, rest| { assert!(has_colon(tok)); });
scan!(numeric_literal_l3, 3, 7, sparql_numeric_literal, |tok, rest| { assert!(num_bytes_ok(tok)); });
// ---- L = 4 (thorough, where it fits)
scan!(variable_l4, 4, 8, sparql_variable, |tok, rest| { assert!(tok.len() >= 2 && (b0(tok) == b'?' || b0(tok) == b'$')); });
scan!(iri_l4, 4, 8, sparql_iri, |tok, rest| { assert!(tok.len() >= 2 && b0(tok) == b'<' && bl(tok) == b'>'); });
scan!(blank_node_l4, 4, 8, sparql_blank_node, |tok, rest| { assert!(tok.len() >= 3 && b0(tok) == b'_' && tok.as_bytes()[1] == b':'); });
scan!(prefixed_name_l4, 4, 8, sparql_prefixed_name, |tok, rest| { assert!(has_colon(tok)); });
scan!(numeric_literal_l4, 4, 8, sparql_numeric_literal, |tok, rest| { assert!(num_bytes_ok(tok)); });

/// sparql_skip_ws returns a suffix of its input, on a char boundary, for every input
macro_rules! skipws {
    ($name:ident, $len:expr, $unw:expr) => {
        #[kani::proof]
        #[kani::unwind($unw)]
        #[kani::stub(char::is_whitespace, stub_ws)]
        fn $name() {
            let buf: [u8; $len] = kani::any();
            kani::assume(wf::<$len>(&buf));
            let s = unsafe { std::str::from_utf8_unchecked(&buf) };
            let r = sparql_skip_ws(s);
            assert!(r.len() <= $len);
            // a suffix of the input (an empty result may be the literal "": its address carries no information)
            if r.len() > 0 { assert!(r.as_ptr() == unsafe { s.as_ptr().add($len - r.len()) }); }
            // nothing left to skip: what remains starts with neither whitespace nor a comment
            if let Some(c) = r.chars().next() { assert!(!stub_ws(c) && c != '#'); }
            // only skippable material was skipped: an input starting with an ordinary ASCII character is untouched
            let first = buf[0];
            if !(first == b' ' || (first >= 9 && first <= 13) || first == b'#' || first >= 0x80) { assert!(r.len() == $len); }
            // reference model (SPARQL 19.4: a comment runs from '#' to the end of the line, CR or LF, and is white space):
            // the result starts at the first character that is neither white space nor inside a comment
            let mut start = $len;
            let mut in_comment = false;
            for (idx, c) in s.char_indices() {
                if in_comment { if c == '\r' || c == '\n' { in_comment = false; } continue; }
                if stub_ws(c) { continue; }
                if c == '#' { in_comment = true; continue; }
                start = idx;
                break;
            }
            assert!(r.len() == $len - start, "exactly white space and comments (up to CR or LF) are skipped");
            kani::cover!(r.len() == 1 && buf[0] == b'#', "comment skipped up to its newline");
            kani::cover!(r.len() == $len, "nothing to skip");
        }
    };
}
skipws!(skip_ws_l2, 2, 6);
skipws!(skip_ws_l3, 3, 7);
skipws!(skip_ws_l4, 4, 8);

/// whitespace independence: one leading blank does not change what is scanned
macro_rules! wsindep {
    ($name:ident, $len:expr, $unw:expr, $scanner:ident) => {
        #[kani::proof]
        #[kani::unwind($unw)]
        #[kani::stub(char::is_alphanumeric, stub_alnum)]
        #[kani::stub(char::is_alphabetic, stub_alpha)]
        #[kani::stub(char::is_whitespace, stub_ws)]
        fn $name() {
            let buf: [u8; $len] = kani::any();
            kani::assume(buf[0] == b' ' || buf[0] == b'\n' || buf[0] == b'\t');
            kani::assume(wf::<$len>(&buf));
            let s = unsafe { std::str::from_utf8_unchecked(&buf) };
            let t = unsafe { std::str::from_utf8_unchecked(&buf[1..]) };
            match ($scanner(s), $scanner(t)) {
                (Ok((r1, k1)), Ok((r2, k2))) => { assert!(k1.as_ptr() == k2.as_ptr() && k1.len() == k2.len() && r1.len() == r2.len()); }
                (Err(_), Err(_)) => {}
                _ => { assert!(false, "leading whitespace changed acceptance"); }
            }
            kani::cover!(true, "end reached");
        }
    };
}
wsindep!(ws_independence_variable_l3, 3, 7, sparql_variable);
wsindep!(ws_independence_iri_l3, 3, 7, sparql_iri);
wsindep!(ws_independence_blank_node_l4, 4, 8, sparql_blank_node);
wsindep!(ws_independence_numeric_literal_l3, 3, 7, sparql_numeric_literal);
wsindep!(ws_independence_prefixed_name_l3, 3, 7, sparql_prefixed_name);

// ---- helper scanners called with byte offsets by the token scanners (direct harnesses: the token-level harnesses stop
// at L = 4 bytes, too short for an escape followed by a multi-byte character)
/// `\uXXXX` / `\UXXXXXXXX` length: never panics (the fixed-width slice must not cut a character), and an accepted
/// escape is exactly that many ASCII hex digits
macro_rules! uesc {
    ($name:ident, $len:expr, $unw:expr, $kind:expr) => {
        #[kani::proof]
        #[kani::unwind($unw)]
        fn $name() {
            let buf: [u8; $len] = kani::any();
            kani::assume(buf[0] == b'\\' && buf[1] == $kind);
            kani::assume(wf::<$len>(&buf));
            let s = unsafe { std::str::from_utf8_unchecked(&buf) };
            let r = sparql_unicode_escape_len(s);
            if let Some(end) = r {
                assert!(end == if $kind == b'u' { 6 } else { 10 } && end <= $len);
                let mut i = 2;
                while i < end { assert!(buf[i].is_ascii_hexdigit(), "an accepted escape consists of hex digits"); i += 1; }
            }
            kani::cover!(r.is_some(), "an escape is accepted");
            kani::cover!(r.is_none() && buf[5] >= 0x80, "a multi-byte character inside the digit field is rejected");
        }
    };
}
uesc!(unicode_escape_len_u_l7, 7, 12, b'u');
uesc!(unicode_escape_len_u_l8, 8, 12, b'u');
uesc!(unicode_escape_len_cap_u_l11, 11, 14, b'U');

/// PN_PREFIX validation: total, and the offending part it reports is a non-empty suffix of the candidate prefix
macro_rules! pnprefix {
    ($name:ident, $len:expr, $unw:expr) => {
        #[kani::proof]
        #[kani::unwind($unw)]
        #[kani::stub(char::is_alphanumeric, stub_alnum)]
        #[kani::stub(char::is_alphabetic, stub_alpha)]
        #[kani::stub(char::is_whitespace, stub_ws)]
        fn $name() {
            let buf: [u8; $len] = kani::any();
            kani::assume(wf::<$len>(&buf));
            let s = unsafe { std::str::from_utf8_unchecked(&buf) };
            let r = sparql_invalid_pn_prefix(s);
            if let Some(off) = r {
                assert!(off.len() >= 1 && off.len() <= $len);
                assert!(off.as_ptr() as usize + off.len() == s.as_ptr() as usize + $len, "the offending part is a suffix of the prefix");
            }
            kani::cover!(r.is_none(), "a valid prefix");
            kani::cover!(r.is_some() && buf[0] < 0x80 && buf[1] >= 0x80, "offending character after a multi-byte character");
        }
    };
}
pnprefix!(invalid_pn_prefix_l3, 3, 7);
pnprefix!(invalid_pn_prefix_l4, 4, 8);

// ---- quoted literals (single / triple quoted, escapes, optional @lang / ^^datatype suffix): the token starts with a
// quote character and contains its closing partner
fn count_byte(t: &str, x: u8) -> usize { let b = t.as_bytes(); let mut n = 0; let mut i = 0; while i < b.len() { if b[i] == x { n += 1; } i += 1; } n }
scan!(quoted_literal_l2, 2, 8, sparql_quoted_literal, |tok, rest| { assert!((b0(tok) == b'"' || b0(tok) == b'\'') && count_byte(tok, b0(tok)) >= 2); });
scan!(quoted_literal_l3, 3, 9, sparql_quoted_literal, |tok, rest| { assert!((b0(tok) == b'"' || b0(tok) == b'\'') && count_byte(tok, b0(tok)) >= 2); });
scan!(quoted_literal_l4, 4, 10, sparql_quoted_literal, |tok, rest| { assert!((b0(tok) == b'"' || b0(tok) == b'\'') && count_byte(tok, b0(tok)) >= 2); });
