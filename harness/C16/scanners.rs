// C16 -- hand-written byte-offset token scanners of kolibrie/src/parser.rs (extracted verbatim, T3):
// totality ("never crash") and slice faithfulness on EVERY well-formed UTF-8 input of a fixed length.

/// UTF-8 well-formedness of a fixed-length buffer as byte comparisons (RFC 3629 table), no std validation loop
fn wf<const L: usize>(b: &[u8; L]) -> bool {
    let mut need = 0u8;
    let mut lo = 0x80u8;
    let mut hi = 0xBFu8;
    let mut i = 0;
    while i < L {
        let x = b[i];
        if need == 0 {
            if x < 0x80 {
            } else if x >= 0xC2 && x <= 0xDF { need = 1; lo = 0x80; hi = 0xBF; }
            else if x == 0xE0 { need = 2; lo = 0xA0; hi = 0xBF; }
            else if (x >= 0xE1 && x <= 0xEC) || x == 0xEE || x == 0xEF { need = 2; lo = 0x80; hi = 0xBF; }
            else if x == 0xED { need = 2; lo = 0x80; hi = 0x9F; }
            else if x == 0xF0 { need = 3; lo = 0x90; hi = 0xBF; }
            else if x >= 0xF1 && x <= 0xF3 { need = 3; lo = 0x80; hi = 0xBF; }
            else if x == 0xF4 { need = 3; lo = 0x80; hi = 0x8F; }
            else { return false; }
        } else {
            if x < lo || x > hi { return false; }
            need -= 1; lo = 0x80; hi = 0xBF;
        }
        i += 1;
    }
    need == 0
}

// Unicode class proxies (see DESIGN.md 2.3): exact for ASCII; for non-ASCII a fixed function of the code
// point that yields both classes for every encoded length. Offset arithmetic only depends on (len_utf8, class).
fn stub_alnum(c: char) -> bool {
    if (c as u32) < 128 { let b = c as u8; (b >= b'0' && b <= b'9') || (b >= b'a' && b <= b'z') || (b >= b'A' && b <= b'Z') } else { (c as u32) & 1 == 1 }
}
fn stub_alpha(c: char) -> bool {
    if (c as u32) < 128 { let b = c as u8; (b >= b'a' && b <= b'z') || (b >= b'A' && b <= b'Z') } else { (c as u32) & 1 == 1 }
}
fn stub_ws(c: char) -> bool {
    if (c as u32) < 128 { let b = c as u8; b == b' ' || (b >= 9 && b <= 13) } else { (c as u32) & 3 == 2 }
}

/// faithfulness, as pointer facts about the returned slices (no second scan, no memcmp):
/// tok and rest are adjacent sub-slices of the input, rest runs to the end of the input (nothing invented,
/// nothing dropped after the token), tok is non-empty, and nothing is skipped in front of the token unless the
/// input starts with something skippable (whitespace, a '#' comment, or a non-ASCII character that may be
/// Unicode whitespace). What exactly is skipped is decided by the skip_ws harnesses.
fn faithful(input: &str, rest: &str, tok: &str) {
    assert!(tok.len() >= 1);
    let base = input.as_ptr() as usize;
    let t0 = tok.as_ptr() as usize;
    let r0 = rest.as_ptr() as usize;
    assert!(t0 >= base);
    assert!(r0 == t0 + tok.len());
    assert!(r0 + rest.len() == base + input.len());
    let first = input.as_bytes()[0];
    let skippable = first == b' ' || (first >= 9 && first <= 13) || first == b'#' || first >= 0x80;
    if !skippable { assert!(t0 == base); }
}

macro_rules! scan {
    ($name:ident, $len:expr, $unw:expr, $scanner:ident, |$tok:ident, $rest:ident| $shape:block) => {
        #[kani::proof]
        #[kani::unwind($unw)]
        #[kani::stub(char::is_alphanumeric, stub_alnum)]
        #[kani::stub(char::is_alphabetic, stub_alpha)]
        #[kani::stub(char::is_whitespace, stub_ws)]
        fn $name() {
            let buf: [u8; $len] = kani::any();
            kani::assume(wf::<$len>(&buf));
            let s = unsafe { std::str::from_utf8_unchecked(&buf) };
            let r = $scanner(s);
            let accepted = r.is_ok();
            if let Ok(($rest, $tok)) = r {
                faithful(s, $rest, $tok);
                $shape
            }
            kani::cover!(accepted, "some input is accepted");
            kani::cover!(!accepted && buf[0] >= 0x80, "some input starting with a multi-byte character is rejected");
        }
    };
}
macro_rules! scan_nocover_accept {
    ($name:ident, $len:expr, $unw:expr, $scanner:ident) => {
        #[kani::proof]
        #[kani::unwind($unw)]
        #[kani::stub(char::is_alphanumeric, stub_alnum)]
        #[kani::stub(char::is_alphabetic, stub_alpha)]
        #[kani::stub(char::is_whitespace, stub_ws)]
        fn $name() {
            let buf: [u8; $len] = kani::any();
            kani::assume(wf::<$len>(&buf));
            let s = unsafe { std::str::from_utf8_unchecked(&buf) };
            if let Ok((rest, tok)) = $scanner(s) { faithful(s, rest, tok); }
            kani::cover!(true, "end reached");
        }
    };
}

fn b0(t: &str) -> u8 { t.as_bytes()[0] }
fn bl(t: &str) -> u8 { t.as_bytes()[t.len() - 1] }
fn num_bytes_ok(t: &str) -> bool {
    let b = t.as_bytes();
    let mut i = 0;
    while i < b.len() { let x = b[i]; if !((x >= b'0' && x <= b'9') || x == b'+' || x == b'-' || x == b'.' || x == b'e' || x == b'E') { return false; } i += 1; }
    true
}
fn has_colon(t: &str) -> bool {
    let b = t.as_bytes();
    let mut i = 0;
    while i < b.len() { if b[i] == b':' { return true; } i += 1; }
    false
}

// ---- L = 1
scan_nocover_accept!(variable_l1, 1, 5, sparql_variable);
scan_nocover_accept!(iri_l1, 1, 5, sparql_iri);
scan_nocover_accept!(blank_node_l1, 1, 5, sparql_blank_node);
scan!(prefixed_name_l1, 1, 5, sparql_prefixed_name, |tok, rest| { assert!(has_colon(tok)); });
scan!(numeric_literal_l1, 1, 5, sparql_numeric_literal, |tok, rest| { assert!(num_bytes_ok(tok)); });
// ---- L = 2
scan!(variable_l2, 2, 6, sparql_variable, |tok, rest| { assert!(tok.len() >= 2 && (b0(tok) == b'?' || b0(tok) == b'$')); });
scan!(iri_l2, 2, 6, sparql_iri, |tok, rest| { assert!(tok.len() >= 2 && b0(tok) == b'<' && bl(tok) == b'>'); });
scan_nocover_accept!(blank_node_l2, 2, 6, sparql_blank_node);
scan!(prefixed_name_l2, 2, 6, sparql_prefixed_name, |tok, rest| { assert!(has_colon(tok)); });
scan!(numeric_literal_l2, 2, 6, sparql_numeric_literal, |tok, rest| { assert!(num_bytes_ok(tok)); });
// ---- L = 3
scan!(variable_l3, 3, 7, sparql_variable, |tok, rest| { assert!(tok.len() >= 2 && (b0(tok) == b'?' || b0(tok) == b'$')); });
scan!(iri_l3, 3, 7, sparql_iri, |tok, rest| { assert!(tok.len() >= 2 && b0(tok) == b'<' && bl(tok) == b'>'); });
scan!(blank_node_l3, 3, 7, sparql_blank_node, |tok, rest| { assert!(tok.len() >= 3 && b0(tok) == b'_' && tok.as_bytes()[1] == b':'); });
scan!(prefixed_name_l3, 3, 7, sparql_prefixed_name, |tok, rest| { assert!(has_colon(tok)); });
scan!(numeric_literal_l3, 3, 7, sparql_numeric_literal, |tok, rest| { assert!(num_bytes_ok(tok)); });
// ---- L = 4 (thorough, where it fits)
scan!(variable_l4, 4, 8, sparql_variable, |tok, rest| { assert!(tok.len() >= 2 && (b0(tok) == b'?' || b0(tok) == b'$')); });
scan!(iri_l4, 4, 8, sparql_iri, |tok, rest| { assert!(tok.len() >= 2 && b0(tok) == b'<' && bl(tok) == b'>'); });
scan!(blank_node_l4, 4, 8, sparql_blank_node, |tok, rest| { assert!(tok.len() >= 3 && b0(tok) == b'_' && tok.as_bytes()[1] == b':'); });
scan!(prefixed_name_l4, 4, 8, sparql_prefixed_name, |tok, rest| { assert!(has_colon(tok)); });
scan!(numeric_literal_l4, 4, 8, sparql_numeric_literal, |tok, rest| { assert!(num_bytes_ok(tok)); });

/// sparql_skip_ws returns a suffix of its input, on a char boundary, for every input
macro_rules! skipws {
    ($name:ident, $len:expr, $unw:expr) => {
        #[kani::proof]
        #[kani::unwind($unw)]
        #[kani::stub(char::is_whitespace, stub_ws)]
        fn $name() {
            let buf: [u8; $len] = kani::any();
            kani::assume(wf::<$len>(&buf));
            let s = unsafe { std::str::from_utf8_unchecked(&buf) };
            let r = sparql_skip_ws(s);
            assert!(r.len() <= $len);
            // a suffix of the input (an empty result may be the literal "": its address carries no information)
            if r.len() > 0 { assert!(r.as_ptr() == unsafe { s.as_ptr().add($len - r.len()) }); }
            // nothing left to skip: what remains starts with neither whitespace nor a comment
            if let Some(c) = r.chars().next() { assert!(!stub_ws(c) && c != '#'); }
            // only skippable material was skipped: an input starting with an ordinary ASCII character is untouched
            let first = buf[0];
            if !(first == b' ' || (first >= 9 && first <= 13) || first == b'#' || first >= 0x80) { assert!(r.len() == $len); }
            kani::cover!(r.len() == 1 && buf[0] == b'#', "comment skipped up to its newline");
            kani::cover!(r.len() == $len, "nothing to skip");
        }
    };
}
skipws!(skip_ws_l2, 2, 6);
skipws!(skip_ws_l3, 3, 7);
skipws!(skip_ws_l4, 4, 8);

/// whitespace independence: one leading blank does not change what is scanned
macro_rules! wsindep {
    ($name:ident, $len:expr, $unw:expr, $scanner:ident) => {
        #[kani::proof]
        #[kani::unwind($unw)]
        #[kani::stub(char::is_alphanumeric, stub_alnum)]
        #[kani::stub(char::is_alphabetic, stub_alpha)]
        #[kani::stub(char::is_whitespace, stub_ws)]
        fn $name() {
            let buf: [u8; $len] = kani::any();
            kani::assume(buf[0] == b' ' || buf[0] == b'\n' || buf[0] == b'\t');
            kani::assume(wf::<$len>(&buf));
            let s = unsafe { std::str::from_utf8_unchecked(&buf) };
            let t = unsafe { std::str::from_utf8_unchecked(&buf[1..]) };
            match ($scanner(s), $scanner(t)) {
                (Ok((r1, k1)), Ok((r2, k2))) => { assert!(k1.as_ptr() == k2.as_ptr() && k1.len() == k2.len() && r1.len() == r2.len()); }
                (Err(_), Err(_)) => {}
                _ => { assert!(false, "leading whitespace changed acceptance"); }
            }
            kani::cover!(true, "end reached");
        }
    };
}
wsindep!(ws_independence_variable_l3, 3, 7, sparql_variable);
wsindep!(ws_independence_iri_l3, 3, 7, sparql_iri);
wsindep!(ws_independence_blank_node_l4, 4, 8, sparql_blank_node);
wsindep!(ws_independence_numeric_literal_l3, 3, 7, sparql_numeric_literal);
wsindep!(ws_independence_prefixed_name_l3, 3, 7, sparql_prefixed_name);
