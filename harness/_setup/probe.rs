#[kani::proof]
fn setup_probe() { let x: u8 = kani::any(); assert!(x as u16 <= 255); kani::cover!(x == 3); }
