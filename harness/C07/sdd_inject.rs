// C07 -- SddManager (shared/src/sdd.rs), injected (T2). Second attempt: the design round measured OOM for ONE apply on a
// concrete 2-variable manager; §2.2.1 explains why (enum nodes in a heap Vec lose their discriminant). Here: compact maps,
// Option-slot Vec model.
fn mgr2() -> SddManager {
    let mut m = SddManager::new();
    m.ensure_variable(0, 0.5);
    m.ensure_variable(1, 0.25);
    m
}
/// weight of the worlds (over x0, x1 with P(x0)=0.5, P(x1)=0.25) in which `l0 op l1` holds; l_i = x_i or its negation
fn truth_table_wmc(pol0: bool, pol1: bool, and: bool) -> f64 {
    let mut total = 0.0f64;
    let mut w = 0u8;
    while w < 4 {
        let x0 = w & 1 != 0; let x1 = w & 2 != 0;
        let l0 = x0 == pol0; let l1 = x1 == pol1;
        let holds = if and { l0 && l1 } else { l0 || l1 };
        if holds { total += (if x0 { 0.5 } else { 0.5 }) * (if x1 { 0.25 } else { 0.75 }); }
        w += 1;
    }
    total
}

/// micro: one unbudgeted apply over two literals with symbolic polarities and operator, model count = truth table
#[kani::proof]
#[kani::unwind(10)]
fn apply_two_literals_wmc() {
    let mut m = mgr2();
    let pol0: bool = kani::any();
    let pol1: bool = kani::any();
    let and: bool = kani::any();
    let a = m.literal(0, pol0);
    let b = m.literal(1, pol1);
    let r = m.apply(a, b, if and { BoolOp::And } else { BoolOp::Or });
    let w = m.wmc(r);
    assert!(w == truth_table_wmc(pol0, pol1, and), "weighted model count equals the truth-table sum");
    kani::cover!(and && pol0 && pol1);
    std::mem::forget(m);
}

fn op_of(and: bool) -> BoolOp { if and { BoolOp::And } else { BoolOp::Or } }

/// handle-level laws ("equal functions get equal handles") over two variables, no floating point: commutativity,
/// idempotence, complement, double negation, De Morgan -- symbolic polarities and operator
#[kani::proof]
#[kani::unwind(10)]
fn canonical_handles_two_literals() {
    let mut m = mgr2();
    let pol0: bool = kani::any();
    let pol1: bool = kani::any();
    let and: bool = kani::any();
    let a = m.literal(0, pol0);
    let b = m.literal(1, pol1);
    let ab = m.apply(a, b, op_of(and));
    let ba = m.apply(b, a, op_of(and));
    assert!(ab == ba, "apply is commutative at the handle level");
    assert!(m.apply(a, a, op_of(and)) == a, "idempotent");
    let na = m.negate(a);
    assert!(m.negate(na) == a, "double negation gives the same handle");
    assert!(m.apply(a, na, BoolOp::And) == SddId::FALSE && m.apply(a, na, BoolOp::Or) == SddId::TRUE, "complement");
    // De Morgan
    let nb = m.negate(b);
    let lhs = m.negate(ab);
    let rhs = m.apply(na, nb, op_of(!and));
    assert!(lhs == rhs, "De Morgan: equal functions get equal handles");
    kani::cover!(and && pol0 && !pol1);
    std::mem::forget(m);
}

/// interruption safety: a budgeted apply whose deadline expires at the k-th checkpoint (k symbolic) and whose node budget
/// is symbolic either returns the handle the unbudgeted operation returns, or reports exhaustion -- and after exhaustion
/// at any point the manager still answers correctly (same canonical handles, laws still hold)
#[kani::proof]
#[kani::unwind(10)]
fn budgeted_apply_interrupted_anywhere() {
    let mut m = mgr2();
    let pol0: bool = kani::any();
    let pol1: bool = kani::any();
    let and: bool = kani::any();
    let a = m.literal(0, pol0);
    let b = m.literal(1, pol1);
    let fail_at: u8 = kani::any();
    let max_nodes: usize = kani::any();
    kani::assume(max_nodes <= 12);
    let mut calls: u8 = 0;
    let mut deadline = || { calls = calls.wrapping_add(1); calls != fail_at };
    let r = {
        let mut budget = SddOperationBudget::new(max_nodes, &mut deadline);
        m.try_apply(a, b, op_of(and), &mut budget)
    };
    let full = m.apply(a, b, op_of(and));
    if let Ok(x) = r { assert!(x == full, "a budgeted result is the unbudgeted result"); }
    // the manager still answers correctly after an exhaustion at any point
    let ba = m.apply(b, a, op_of(and));
    assert!(ba == full);
    let na = m.negate(a);
    let nb = m.negate(b);
    let dm = m.apply(na, nb, op_of(!and));
    assert!(m.negate(full) == dm, "De Morgan still holds after an interrupted operation");
    assert!(m.apply(full, na, BoolOp::And) == if and { SddId::FALSE } else { m.apply(b, na, BoolOp::And) }, "absorption against the complement");
    kani::cover!(r.is_err(), "the operation was interrupted");
    kani::cover!(r.is_ok() && fail_at != 0 && fail_at < 8, "the operation completed under a finite budget");
    std::mem::forget(m);
}
