// C03 -- apply_mutations (kolibrie/src/execute_query.rs), extracted verbatim (T3); SparqlDatabase is reduced to the one
// field the function touches, UpdateSummary to its two counters. Decides: "all deletions are applied before all
// insertions" and "the reported inserted/deleted counts equal the number of quads that actually changed".
use shared::dataset_index::{DatasetIndex, GraphId, Quad};
const N1: GraphId = GraphId::Named(1);
fn any_id() -> u32 { let x: u32 = kani::any(); kani::assume(x < 2); x }
fn any_graph() -> GraphId { if kani::any() { N1 } else { GraphId::Default } }
fn any_quad() -> Quad { Quad { subject: any_id(), predicate: any_id(), object: any_id(), graph: any_graph() } }

/// a store holding 0..2 symbolic quads; a delete set and an insert set of 0..2 symbolic quads each (they may overlap
/// each other and the store: self-referential DELETE/INSERT templates)
fn modify<const ND: usize, const NI: usize>() {
    let mut db = SparqlDatabase { dataset_index: DatasetIndex::new() };
    let s1 = any_quad();
    let s2 = any_quad();
    let n_stored: u8 = kani::any();
    kani::assume(n_stored <= 2);
    if n_stored >= 1 { db.dataset_index.insert_quad(&s1); }
    if n_stored >= 2 { db.dataset_index.insert_quad(&s2); }
    let stored = |r: &Quad| (n_stored >= 1 && *r == s1) || (n_stored >= 2 && *r == s2);
    let d = [any_quad(), any_quad()];
    let i = [any_quad(), any_quad()];
    let mut deletions = BTreeSet::new();
    let mut insertions = BTreeSet::new();
    let mut k = 0;
    while k < ND { deletions.insert(d[k].clone()); k += 1; }
    let mut k = 0;
    while k < NI { insertions.insert(i[k].clone()); k += 1; }
    let in_d = |r: &Quad| (ND >= 1 && *r == d[0]) || (ND >= 2 && *r == d[1]);
    let in_i = |r: &Quad| (NI >= 1 && *r == i[0]) || (NI >= 2 && *r == i[1]);
    let had_n1 = db.dataset_index.graph_exists(N1);

    let summary = apply_mutations(deletions, insertions, &mut db);

    // the dataset afterwards is (stored \ D) u I : deletions first, then insertions (a quad in both ends up present)
    let r = any_quad();
    let expect = (stored(&r) && !in_d(&r)) || in_i(&r);
    assert!(db.dataset_index.contains_quad(&r) == expect, "dataset = (old minus deletions) plus insertions");
    // counts = quads that actually changed in each phase
    let mut del = 0usize;
    if ND >= 1 && stored(&d[0]) { del += 1; }
    if ND >= 2 && stored(&d[1]) && d[1] != d[0] { del += 1; }
    let after_del = |q: &Quad| stored(q) && !in_d(q);
    let mut ins = 0usize;
    if NI >= 1 && !after_del(&i[0]) { ins += 1; }
    if NI >= 2 && !after_del(&i[1]) && i[1] != i[0] { ins += 1; }
    assert!(summary.deleted_quads == del, "deleted count = quads actually removed");
    assert!(summary.inserted_quads == ins, "inserted count = quads actually added");
    // graph identity: an update never drops it; inserting into a named graph creates it
    let ins_n1 = (NI >= 1 && i[0].graph == N1) || (NI >= 2 && i[1].graph == N1);
    assert!(db.dataset_index.graph_exists(N1) == (had_n1 || ins_n1));
    if ND >= 1 && NI >= 1 { kani::cover!(n_stored >= 1 && d[0] == s1 && i[0] == s1, "a stored quad both deleted and re-inserted"); }
    kani::cover!(summary.deleted_quads + summary.inserted_quads >= 2, "two effective changes");
    std::mem::forget(db);
}

#[kani::proof]
#[kani::unwind(8)]
fn delete_insert_1_1() { modify::<1, 1>() }

#[kani::proof]
#[kani::unwind(8)]
fn delete_insert_2_1() { modify::<2, 1>() }

#[kani::proof]
#[kani::unwind(8)]
fn delete_insert_1_2() { modify::<1, 2>() }
