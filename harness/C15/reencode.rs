// C15 (union clause, kernel) -- the recursive re-encoding of term ids through a translation cache that
// SparqlDatabase::union relies on. `reencode_term_id` is extracted verbatim from kolibrie/src/sparql_database.rs (T3).
use shared::dictionary::Dictionary;
use shared::quoted_triple_store::{is_quoted_triple_id, QuotedTripleStore};

fn s1(b: &u8) -> &str { unsafe { std::str::from_utf8_unchecked(std::slice::from_ref(b)) } }
fn ascii() -> u8 { let b: u8 = kani::any(); kani::assume(b < 128); b }

/// Two independently built databases whose identifiers clash: the source holds plain terms t0, t1 and the quoted
/// term << a b c >> over them (and, nested, << q a b >>); the target already holds other plain terms under the
/// same ids. Translating any source id must give a target id that denotes the same term, structurally.
#[kani::proof]
#[kani::unwind(6)]
fn reencode_denotes_same_term() {
    let (c0, c1, d0) = (ascii(), ascii(), ascii());
    let mut src = Dictionary::new();
    let mut src_q = QuotedTripleStore::new();
    let t0 = src.encode(s1(&c0));
    let t1 = src.encode(s1(&c1));
    let pick = |k: bool| if k { t1 } else { t0 };
    let (ka, kb, kc): (bool, bool, bool) = (kani::any(), kani::any(), kani::any());
    let q0 = src_q.encode(pick(ka), pick(kb), pick(kc));
    let nested: bool = kani::any();
    let q1 = if nested { src_q.encode(q0, pick(kb), pick(ka)) } else { q0 };

    let mut dst = Dictionary::new();
    let mut dst_q = QuotedTripleStore::new();
    let _u0 = dst.encode(s1(&d0)); // clashes with t0's id
    let pre_q: bool = kani::any();
    if pre_q { dst_q.encode(0, 0, 0); } // clashes with q0's id

    let mut cache: HashMap<u32, u32> = HashMap::new();
    // plain terms
    let r0 = reencode_term_id(t0, &src, &src_q, &mut dst, &mut dst_q, &mut cache);
    let r1 = reencode_term_id(t1, &src, &src_q, &mut dst, &mut dst_q, &mut cache);
    assert!(!is_quoted_triple_id(r0) && !is_quoted_triple_id(r1));
    assert!(dst.decode(r0) == Some(s1(&c0)));
    assert!(dst.decode(r1) == Some(s1(&c1)));
    assert!((r0 == r1) == (c0 == c1));
    // the quoted term (possibly nested)
    let rq = reencode_term_id(q1, &src, &src_q, &mut dst, &mut dst_q, &mut cache);
    assert!(is_quoted_triple_id(rq));
    let rpick = |k: bool| if k { r1 } else { r0 };
    if nested {
        let (s, p, o) = dst_q.decode(rq).unwrap();
        assert!(p == rpick(kb) && o == rpick(ka));
        assert!(dst_q.decode(s) == Some((rpick(ka), rpick(kb), rpick(kc))));
    } else {
        assert!(dst_q.decode(rq) == Some((rpick(ka), rpick(kb), rpick(kc))));
    }
    // translating again is stable (cache) and what the target held before still means what it meant
    assert!(reencode_term_id(q1, &src, &src_q, &mut dst, &mut dst_q, &mut cache) == rq);
    assert!(dst.decode(0) == Some(s1(&d0)));
    if pre_q { assert!(dst_q.decode(0x8000_0000) == Some((0, 0, 0))); }
    kani::cover!(nested && pre_q && c0 != c1 && c0 != d0 && c1 != d0, "nested quoted term into a clashing target");
    kani::cover!(c0 == d0 && r0 == 0, "shared term keeps the target's id");
    std::mem::forget(src); std::mem::forget(src_q); std::mem::forget(dst); std::mem::forget(dst_q); std::mem::forget(cache);
}

/// A quoted triple that BOTH databases hold (over a plain term both hold): re-encoding must find the target's existing
/// identifier -- quoted triples are identified structurally -- and must not grow the target store.
#[kani::proof]
#[kani::unwind(6)]
fn reencode_shared_quoted_term_keeps_identity() {
    let c0 = ascii();
    let mut src = Dictionary::new();
    let mut src_q = QuotedTripleStore::new();
    let pad: bool = kani::any();
    if pad { src.encode(s1(&(c0 ^ 1))); } // shifts the source ids so that they clash with / differ from the target's
    let t0 = src.encode(s1(&c0));
    let q0 = src_q.encode(t0, t0, t0);

    let mut dst = Dictionary::new();
    let mut dst_q = QuotedTripleStore::new();
    let u0 = dst.encode(s1(&c0));
    let pre = dst_q.encode(u0, u0, u0);
    let n_before = dst_q.len();

    let mut cache: HashMap<u32, u32> = HashMap::new();
    let rq = reencode_term_id(q0, &src, &src_q, &mut dst, &mut dst_q, &mut cache);
    assert!(rq == pre, "the same quoted triple keeps the identifier the target already uses for it");
    assert!(dst_q.len() == n_before, "no second identifier for the same quoted triple");
    assert!(dst_q.decode(rq) == Some((u0, u0, u0)));
    kani::cover!(pad && t0 != u0, "source and target ids of the shared plain term differ");
    kani::cover!(!pad && t0 == u0, "ids coincide");
    std::mem::forget(src); std::mem::forget(src_q); std::mem::forget(dst); std::mem::forget(dst_q); std::mem::forget(cache);
}
