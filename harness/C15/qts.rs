// C15 -- QuotedTripleStore: stable bijection in the high-bit id range. Real bodies of
// shared::quoted_triple_store::{QuotedTripleStore::{new,encode,decode,len,merge}, is_quoted_triple_id}.
use shared::quoted_triple_store::*;

type T3 = (u32, u32, u32);

fn enc(st: &mut QuotedTripleStore, t: T3) -> u32 { st.encode(t.0, t.1, t.2) }

/// all histories of 2 encodes of full-width symbolic component triples
#[kani::proof]
#[kani::unwind(6)]
fn qts_bijection_2() {
    let mut st = QuotedTripleStore::new();
    let a: T3 = kani::any();
    let b: T3 = kani::any();
    let ia = enc(&mut st, a);
    assert!(st.decode(ia) == Some(a));
    let ib = enc(&mut st, b);
    // range: structural ids live in the high-bit range, disjoint from plain ids
    assert!(is_quoted_triple_id(ia) && is_quoted_triple_id(ib));
    assert!(ia & 0x8000_0000 != 0 && ib & 0x8000_0000 != 0);
    // same term => same id, distinct terms => distinct ids
    assert!((ia == ib) == (a == b));
    // decode returns the original term; the id handed out earlier is unchanged
    assert!(st.decode(ia) == Some(a));
    assert!(st.decode(ib) == Some(b));
    // re-encoding is stable
    assert!(enc(&mut st, a) == ia);
    assert!(enc(&mut st, b) == ib);
    assert!(st.len() == if a == b { 1 } else { 2 });
    kani::cover!(a != b && b.0 == ia, "nested: second term quotes the first");
    kani::cover!(a == b, "duplicate");
    std::mem::forget(st);
}

/// all histories of 3 encodes, incl. nesting (a component equal to an id handed out before)
#[kani::proof]
#[kani::unwind(6)]
fn qts_bijection_3() {
    let mut st = QuotedTripleStore::new();
    let a: T3 = kani::any();
    let b: T3 = kani::any();
    let c: T3 = kani::any();
    let ia = enc(&mut st, a);
    let ib = enc(&mut st, b);
    assert!(st.decode(ia) == Some(a));
    let ic = enc(&mut st, c);
    assert!(is_quoted_triple_id(ia) && is_quoted_triple_id(ib) && is_quoted_triple_id(ic));
    assert!((ia == ib) == (a == b));
    assert!((ia == ic) == (a == c));
    assert!((ib == ic) == (b == c));
    assert!(st.decode(ia) == Some(a));
    assert!(st.decode(ib) == Some(b));
    assert!(st.decode(ic) == Some(c));
    let distinct = 1 + (b != a) as usize + (c != a && c != b) as usize;
    assert!(st.len() == distinct);
    // structural decoding of a nested term
    if c.0 == ib {
        let (s, _, _) = st.decode(ic).unwrap();
        assert!(st.decode(s) == Some(b));
    }
    kani::cover!(distinct == 3 && c.0 == ib && b.2 == ia, "two levels of nesting");
    kani::cover!(distinct == 2, "one duplicate");
    std::mem::forget(st);
}

/// thorough: 4 encodes
#[kani::proof]
#[kani::unwind(7)]
fn qts_bijection_4() {
    let mut st = QuotedTripleStore::new();
    let t: [T3; 4] = kani::any();
    let mut id = [0u32; 4];
    let mut i = 0;
    while i < 4 {
        id[i] = enc(&mut st, t[i]);
        // everything handed out so far still decodes to its term
        let mut j = 0;
        while j <= i {
            assert!(st.decode(id[j]) == Some(t[j]));
            j += 1;
        }
        i += 1;
    }
    let mut i = 0;
    while i < 4 {
        assert!(is_quoted_triple_id(id[i]));
        let mut j = 0;
        while j < i {
            assert!((id[i] == id[j]) == (t[i] == t[j]));
            j += 1;
        }
        i += 1;
    }
    kani::cover!(id[0] != id[1] && id[1] != id[2] && id[2] != id[3] && id[0] != id[2] && id[0] != id[3] && id[1] != id[3], "four distinct");
    std::mem::forget(st);
}

/// the counter may start anywhere in the quoted range (as after a merge): ids stay in range and fresh
#[kani::proof]
#[kani::unwind(6)]
fn qts_counter_anywhere() {
    let mut st = QuotedTripleStore::new();
    let start: u32 = kani::any();
    kani::assume(start >= QUOTED_TRIPLE_ID_BIT && start < 0xFFFF_FFF0);
    st.next_qt_id = start;
    let a: T3 = kani::any();
    let b: T3 = kani::any();
    let ia = enc(&mut st, a);
    let ib = enc(&mut st, b);
    assert!(is_quoted_triple_id(ia) && is_quoted_triple_id(ib));
    assert!(ia >= start && ib >= start);
    assert!((ia == ib) == (a == b));
    assert!(st.decode(ia) == Some(a) && st.decode(ib) == Some(b));
    kani::cover!(ia != ib);
    std::mem::forget(st);
}

/// the top of the identifier range: ids handed out there are still distinct, stable and decodable; running out of
/// identifiers is refused (the counter's overflow check -- an allowed failure of this harness, as Dictionary's
/// exhaustion assert is in dict_exhaustion_never_clashes), never answered by handing out an id twice
#[kani::proof]
#[kani::unwind(7)]
fn qts_counter_at_the_top() {
    let mut st = QuotedTripleStore::new();
    let start: u32 = kani::any();
    kani::assume(start >= 0xFFFF_FFFD);
    st.next_qt_id = start;
    let a: T3 = kani::any();
    let b: T3 = kani::any();
    let c: T3 = kani::any();
    let ia = enc(&mut st, a);
    let ib = enc(&mut st, b);
    let ic = enc(&mut st, c);
    assert!(is_quoted_triple_id(ia) && is_quoted_triple_id(ib) && is_quoted_triple_id(ic));
    assert!((ia == ib) == (a == b) && (ia == ic) == (a == c) && (ib == ic) == (b == c), "distinct terms never share an identifier, also at the top of the range");
    assert!(st.decode(ia) == Some(a) && st.decode(ib) == Some(b) && st.decode(ic) == Some(c), "ids handed out earlier still decode to their term");
    kani::cover!(ia != ib && ib == ic, "two distinct ids near the top");
    kani::cover!(ic == u32::MAX - 1 || ib == u32::MAX - 1, "an id next to the last one is handed out");
    std::mem::forget(st);
}

/// merge never changes what an id of the receiving store decodes to, and keeps its terms' ids
#[kani::proof]
#[kani::unwind(7)]
fn qts_merge_preserves_receiver() {
    let mut x = QuotedTripleStore::new();
    let mut y = QuotedTripleStore::new();
    let a: T3 = kani::any();
    let b: T3 = kani::any();
    let c: T3 = kani::any();
    let d: T3 = kani::any();
    let ia = enc(&mut x, a);
    let ib = enc(&mut x, b);
    let _ic = enc(&mut y, c);
    let _id = enc(&mut y, d);
    x.merge(&y);
    assert!(x.decode(ia) == Some(a));
    assert!(x.decode(ib) == Some(b));
    assert!(enc(&mut x, a) == ia);
    assert!(enc(&mut x, b) == ib);
    // a term first seen after the merge gets an id that is not in use
    let e: T3 = kani::any();
    let before = x.decode(x.next_qt_id);
    let ie = enc(&mut x, e);
    if e != a && e != b && e != c && e != d {
        assert!(before.is_none());
        assert!(ie != ia && ie != ib);
        assert!(x.decode(ie) == Some(e));
    }
    kani::cover!(a != b && c != d && a != c, "both sides non-trivial");
    std::mem::forget(x);
    std::mem::forget(y);
}
