// C15 -- Dictionary: two maps in lock-step with a monotone counter. Real bodies of
// shared::dictionary::Dictionary::{new, encode, decode, merge}.
use shared::dictionary::Dictionary;
use shared::quoted_triple_store::{is_quoted_triple_id, QUOTED_TRIPLE_ID_BIT};

fn s<'a>(buf: &'a [u8; 2], two: bool) -> &'a str {
    // ASCII only, so every prefix is well-formed UTF-8
    unsafe { std::str::from_utf8_unchecked(if two { &buf[..] } else { &buf[..1] }) }
}
fn ascii2() -> [u8; 2] {
    let b: [u8; 2] = kani::any();
    kani::assume(b[0] < 128 && b[1] < 128);
    b
}

/// 2 encodes of symbolic strings of 1..2 bytes, counter start symbolic below the exhaustion line
#[kani::proof]
#[kani::unwind(6)]
fn dict_bijection_2() {
    let mut d = Dictionary::new();
    let start: u32 = kani::any();
    kani::assume(start < QUOTED_TRIPLE_ID_BIT - 2);
    d.next_id = start;
    let (b1, b2) = (ascii2(), ascii2());
    let (l1, l2): (bool, bool) = (kani::any(), kani::any());
    let (x, y) = (s(&b1, l1), s(&b2, l2));
    let ix = d.encode(x);
    assert!(d.decode(ix) == Some(x));
    let iy = d.encode(y);
    assert!((ix == iy) == (x == y));
    assert!(!is_quoted_triple_id(ix) && !is_quoted_triple_id(iy));
    assert!(d.decode(ix) == Some(x));
    assert!(d.decode(iy) == Some(y));
    assert!(d.encode(x) == ix && d.encode(y) == iy);
    kani::cover!(x != y && l1 != l2, "prefix pair of different lengths");
    kani::cover!(x == y, "duplicate");
    std::mem::forget(d);
}

/// 3 encodes
#[kani::proof]
#[kani::unwind(6)]
fn dict_bijection_3() {
    let mut d = Dictionary::new();
    let (b1, b2, b3) = (ascii2(), ascii2(), ascii2());
    let (l1, l2, l3): (bool, bool, bool) = (kani::any(), kani::any(), kani::any());
    let (x, y, z) = (s(&b1, l1), s(&b2, l2), s(&b3, l3));
    let ix = d.encode(x);
    let iy = d.encode(y);
    assert!(d.decode(ix) == Some(x));
    let iz = d.encode(z);
    assert!((ix == iy) == (x == y));
    assert!((ix == iz) == (x == z));
    assert!((iy == iz) == (y == z));
    assert!(d.decode(ix) == Some(x));
    assert!(d.decode(iy) == Some(y));
    assert!(d.decode(iz) == Some(z));
    assert!(!is_quoted_triple_id(ix) && !is_quoted_triple_id(iy) && !is_quoted_triple_id(iz));
    kani::cover!(ix != iy && iy != iz && ix != iz, "three distinct");
    std::mem::forget(d);
}

/// at the exhaustion line a new term must be refused loudly, never handed an id of the quoted range
#[kani::proof]
#[kani::unwind(6)]
fn dict_exhaustion_never_clashes() {
    let mut d = Dictionary::new();
    let start: u32 = kani::any();
    kani::assume(start >= QUOTED_TRIPLE_ID_BIT - 2);
    d.next_id = start;
    let b1 = ascii2();
    let l1: bool = kani::any();
    let x = s(&b1, l1);
    // encode either refuses (the code's own exhaustion assert fires: an *allowed* failure of this
    // harness, see plan.json) or returns; Kani's assert is assert-then-assume, so what follows is
    // checked exactly on the executions in which encode did return
    let ix = d.encode(x);
    // reached only if encode did not refuse: then the id must be a plain one
    assert!(!is_quoted_triple_id(ix));
    kani::cover!(start == QUOTED_TRIPLE_ID_BIT - 1, "last plain id is still handed out");
    std::mem::forget(d);
}

/// merge never changes what an id of the receiving dictionary decodes to, nor its terms' ids
#[kani::proof]
#[kani::unwind(6)]
fn dict_merge_preserves_receiver() {
    let mut p = Dictionary::new();
    let mut q = Dictionary::new();
    let (b1, b2, b3) = (ascii2(), ascii2(), ascii2());
    let (l1, l2, l3): (bool, bool, bool) = (kani::any(), kani::any(), kani::any());
    let (x, y, z) = (s(&b1, l1), s(&b2, l2), s(&b3, l3));
    let ix = p.encode(x);
    let iy = p.encode(y);
    let _ = q.encode(z);
    p.merge(&q);
    assert!(p.decode(ix) == Some(x));
    assert!(p.decode(iy) == Some(y));
    assert!(p.encode(x) == ix);
    assert!(p.encode(y) == iy);
    kani::cover!(x != y && z != x && z != y, "clashing ids on both sides");
    std::mem::forget(p);
    std::mem::forget(q);
}
