// C15 -- Dictionary: two maps in lock-step with a monotone counter. Real bodies of
// shared::dictionary::Dictionary::{new, encode, decode, merge}.
use shared::dictionary::Dictionary;
use shared::quoted_triple_store::{is_quoted_triple_id, QUOTED_TRIPLE_ID_BIT};

fn s<'a>(buf: &'a [u8; 2], two: bool) -> &'a str {
    // ASCII only, so every prefix is well-formed UTF-8
    unsafe { std::str::from_utf8_unchecked(if two { &buf[..] } else { &buf[..1] }) }
}
fn ascii2() -> [u8; 2] {
    let b: [u8; 2] = kani::any();
    kani::assume(b[0] < 128 && b[1] < 128);
    b
}

/// 2 encodes of symbolic strings of 1..2 bytes, counter start symbolic below the exhaustion line
#[kani::proof]
#[kani::unwind(6)]
fn dict_bijection_2() {
    let mut d = Dictionary::new();
    let start: u32 = kani::any();
    kani::assume(start < QUOTED_TRIPLE_ID_BIT - 2);
    d.next_id = start;
    let (b1, b2) = (ascii2(), ascii2());
    let (l1, l2): (bool, bool) = (kani::any(), kani::any());
    let (x, y) = (s(&b1, l1), s(&b2, l2));
    let ix = d.encode(x);
    assert!(d.decode(ix) == Some(x));
    let iy = d.encode(y);
    assert!((ix == iy) == (x == y));
    assert!(!is_quoted_triple_id(ix) && !is_quoted_triple_id(iy));
    assert!(d.decode(ix) == Some(x));
    assert!(d.decode(iy) == Some(y));
    assert!(d.encode(x) == ix && d.encode(y) == iy);
    kani::cover!(x != y && l1 != l2, "prefix pair of different lengths");
    kani::cover!(x == y, "duplicate");
    std::mem::forget(d);
}

/// 3 encodes
#[kani::proof]
#[kani::unwind(6)]
fn dict_bijection_3() {
    let mut d = Dictionary::new();
    let (b1, b2, b3) = (ascii2(), ascii2(), ascii2());
    let (l1, l2, l3): (bool, bool, bool) = (kani::any(), kani::any(), kani::any());
    let (x, y, z) = (s(&b1, l1), s(&b2, l2), s(&b3, l3));
    let ix = d.encode(x);
    let iy = d.encode(y);
    assert!(d.decode(ix) == Some(x));
    let iz = d.encode(z);
    assert!((ix == iy) == (x == y));
    assert!((ix == iz) == (x == z));
    assert!((iy == iz) == (y == z));
    assert!(d.decode(ix) == Some(x));
    assert!(d.decode(iy) == Some(y));
    assert!(d.decode(iz) == Some(z));
    assert!(!is_quoted_triple_id(ix) && !is_quoted_triple_id(iy) && !is_quoted_triple_id(iz));
    kani::cover!(ix != iy && iy != iz && ix != iz, "three distinct");
    std::mem::forget(d);
}

/// at the exhaustion line a new term must be refused loudly, never handed an id of the quoted range
#[kani::proof]
#[kani::unwind(6)]
fn dict_exhaustion_never_clashes() {
    let mut d = Dictionary::new();
    let start: u32 = kani::any();
    kani::assume(start >= QUOTED_TRIPLE_ID_BIT - 2);
    d.next_id = start;
    let b1 = ascii2();
    let l1: bool = kani::any();
    let x = s(&b1, l1);
    // encode either refuses (the code's own exhaustion assert fires: an *allowed* failure of this
    // harness, see plan.json) or returns; Kani's assert is assert-then-assume, so what follows is
    // checked exactly on the executions in which encode did return
    let ix = d.encode(x);
    // reached only if encode did not refuse: then the id must be a plain one
    assert!(!is_quoted_triple_id(ix));
    kani::cover!(start == QUOTED_TRIPLE_ID_BIT - 1, "last plain id is still handed out");
    std::mem::forget(d);
}

/// merge never changes what an id of the receiving dictionary decodes to, nor its terms' ids
#[kani::proof]
#[kani::unwind(6)]
fn dict_merge_preserves_receiver() {
    let mut p = Dictionary::new();
    let mut q = Dictionary::new();
    let (b1, b2, b3) = (ascii2(), ascii2(), ascii2());
    let (l1, l2, l3): (bool, bool, bool) = (kani::any(), kani::any(), kani::any());
    let (x, y, z) = (s(&b1, l1), s(&b2, l2), s(&b3, l3));
    let ix = p.encode(x);
    let iy = p.encode(y);
    // Dictionary::merge is only meaningful for dictionaries that agree where they overlap (a snapshot of the
    // receiver that went on encoding on its own, a worker's dictionary): with clashing ids no merge can keep both
    // sides' meaning -- that case is what SparqlDatabase::union re-encodes for. q shares a prefix of p's history:
    let snap: u8 = kani::any();
    kani::assume(snap <= 2);
    if snap >= 1 { q.encode(x); }
    if snap >= 2 { q.encode(y); }
    let iz = q.encode(z);
    // agreement on the overlap: the id q uses for z is unused in p or means z there too; a shared string has one id
    kani::assume(match p.decode(iz) { Some(t) => t == z, None => true });
    kani::assume(!(z == x && iz != ix) && !(z == y && iz != iy));
    p.merge(&q);
    assert!(p.decode(ix) == Some(x));
    assert!(p.decode(iy) == Some(y));
    assert!(p.encode(x) == ix);
    assert!(p.encode(y) == iy);
    // a term first seen after the merge must get an id nobody holds: the earlier ids keep their terms
    let b4 = ascii2();
    let l4: bool = kani::any();
    let w = s(&b4, l4);
    let iw = p.encode(w);
    assert!((iw == ix) == (w == x));
    assert!((iw == iy) == (w == y));
    assert!(p.decode(ix) == Some(x));
    assert!(p.decode(iy) == Some(y));
    assert!(p.decode(iw) == Some(w));
    kani::cover!(x != y && z != x && z != y && snap == 2, "q extends a full snapshot with a new term");
    assert!(p.decode(iz) == Some(z)); // ids handed out by the merged-in side stay valid
    kani::cover!(w != x && w != y && w != z, "new term after the merge");
    std::mem::forget(p);
    std::mem::forget(q);
}

/// merging a SMALLER dictionary (an older snapshot, an empty one) must not move the counter back into used ids
#[kani::proof]
#[kani::unwind(6)]
fn dict_merge_smaller_keeps_counter() {
    let mut p = Dictionary::new();
    let q = Dictionary::new();
    let (b1, b2, b3) = (ascii2(), ascii2(), ascii2());
    let (l1, l2, l3): (bool, bool, bool) = (kani::any(), kani::any(), kani::any());
    let (x, y, w) = (s(&b1, l1), s(&b2, l2), s(&b3, l3));
    let ix = p.encode(x);
    let iy = p.encode(y);
    p.merge(&q);
    let iw = p.encode(w);
    assert!((iw == ix) == (w == x));
    assert!((iw == iy) == (w == y));
    assert!(p.decode(ix) == Some(x) && p.decode(iy) == Some(y) && p.decode(iw) == Some(w));
    kani::cover!(x != y && w != x && w != y, "new term after merging an empty dictionary");
    std::mem::forget(p);
    std::mem::forget(q);
}
