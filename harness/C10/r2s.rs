// C10 -- the clause "passed through the declared stream operator (all rows, only new rows, or only
// vanished rows relative to the previous firing)". Real body of
// kolibrie::rsp::r2s::Relation2StreamOperator::{new, eval} (whole r2s.rs, container model for its HashSet).
use crate::rsp::r2s::*;

const N: usize = 3;

/// a firing's result rows: symbolic length 0..=N, symbolic content (duplicates allowed)
fn rows() -> (Vec<u8>, [u8; N], usize) {
    let a: [u8; N] = kani::any();
    let n: usize = kani::any();
    kani::assume(n <= N);
    let mut v = Vec::with_capacity(N);
    let mut i = 0;
    while i < N {
        if i < n { v.push(a[i]); }
        i += 1;
    }
    (v, a, n)
}
fn has(a: &[u8; N], n: usize, x: u8) -> bool {
    let mut i = 0;
    while i < N { if i < n && a[i] == x { return true; } i += 1; }
    false
}
fn has_v(v: &Vec<u8>, x: u8) -> bool {
    let mut i = 0;
    while i < v.len() { if v[i] == x { return true; } i += 1; }
    false
}
fn no_dups(a: &[u8; N], n: usize) -> bool {
    let mut i = 0;
    while i < N { let mut j = 0; while j < i { if i < n && a[i] == a[j] { return false; } j += 1; } i += 1; }
    true
}

/// out == exactly the rows of `cur` that are not in `prev`, in input order (multiplicity kept)
fn check_istream(out: &Vec<u8>, cur: &[u8; N], n: usize, prev: &[u8; N], pn: usize) {
    let mut k = 0usize;
    let mut i = 0;
    while i < N {
        if i < n && !has(prev, pn, cur[i]) {
            assert!(k < out.len());
            assert!(out[k] == cur[i]);
            k += 1;
        }
        i += 1;
    }
    assert!(out.len() == k);
}
/// out, as a set, == prev \ cur; nothing emitted twice
fn check_dstream(out: &Vec<u8>, cur: &[u8; N], n: usize, prev: &[u8; N], pn: usize) {
    let mut i = 0;
    while i < out.len() {
        assert!(has(prev, pn, out[i]) && !has(cur, n, out[i]));
        let mut j = 0;
        while j < i { assert!(out[j] != out[i]); j += 1; }
        i += 1;
    }
    let mut i = 0;
    while i < N {
        if i < pn && !has(cur, n, prev[i]) { assert!(has_v(out, prev[i])); }
        i += 1;
    }
}

#[kani::proof]
#[kani::unwind(6)]
fn r2s_rstream_three_firings() {
    let mut op: Relation2StreamOperator<u8> = Relation2StreamOperator::new(StreamOperator::RSTREAM, 0);
    let mut f = 0;
    while f < 3 {
        let (v, a, n) = rows();
        let out = op.eval(v, f + 1);
        assert!(out.len() == n);
        let mut i = 0;
        while i < N { if i < n { assert!(out[i] == a[i]); } i += 1; }
        std::mem::forget(out);
        f += 1;
    }
    kani::cover!(true, "end reached");
    std::mem::forget(op);
}

#[kani::proof]
#[kani::unwind(6)]
fn r2s_istream_three_firings() {
    let mut op: Relation2StreamOperator<u8> = Relation2StreamOperator::new(StreamOperator::ISTREAM, 0);
    let (v1, a1, n1) = rows();
    let empty = [0u8; N];
    let o1 = op.eval(v1, 1);
    check_istream(&o1, &a1, n1, &empty, 0); // first firing: everything is new
    let (v2, a2, n2) = rows();
    let o2 = op.eval(v2, 2);
    check_istream(&o2, &a2, n2, &a1, n1);
    let (v3, a3, n3) = rows();
    let o3 = op.eval(v3, 3);
    check_istream(&o3, &a3, n3, &a2, n2); // relative to the previous firing only, not the one before
    kani::cover!(n1 == 3 && n2 == 3 && n3 == 3 && o2.len() == 1 && o3.len() == 2 && has(&a1, n1, a3[0]) && !has(&a2, n2, a3[0]),
                 "row of firing 1 vanished in 2 and is new again in 3");
    kani::cover!(n2 == 0 && n3 > 0, "empty firing in the middle");
    std::mem::forget(o1); std::mem::forget(o2); std::mem::forget(o3); std::mem::forget(op);
}

#[kani::proof]
#[kani::unwind(6)]
fn r2s_dstream_three_firings() {
    let mut op: Relation2StreamOperator<u8> = Relation2StreamOperator::new(StreamOperator::DSTREAM, 0);
    let (v1, a1, n1) = rows();
    let empty = [0u8; N];
    let o1 = op.eval(v1, 1);
    check_dstream(&o1, &a1, n1, &empty, 0);
    assert!(o1.len() == 0); // nothing can have vanished at the first firing
    let (v2, a2, n2) = rows();
    let o2 = op.eval(v2, 2);
    check_dstream(&o2, &a2, n2, &a1, n1);
    let (v3, a3, n3) = rows();
    let o3 = op.eval(v3, 3);
    check_dstream(&o3, &a3, n3, &a2, n2);
    kani::cover!(no_dups(&a1, n1) && n1 == 3 && n2 == 1 && o2.len() == 2, "two rows vanish");
    kani::cover!(n2 == 3 && n3 == 0 && o3.len() == 3 && o2.len() > 0, "everything vanishes");
    std::mem::forget(o1); std::mem::forget(o2); std::mem::forget(o3); std::mem::forget(op);
}
