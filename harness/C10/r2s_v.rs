// C10 -- single-row twin of the ISTREAM history on the Vec MODEL (r2s.rs rewritten with T1v): with the real std Vec a
// change that builds the emitted rows with `.iter().filter().cloned().collect()` (growth by realloc) runs out of
// memory and the check ends inconclusive (measured on seed C10a-1); with the model it is decided in seconds.
use crate::rsp::r2s::*;
const N: usize = 3;

/// a firing's result rows: symbolic length 0..=N, symbolic content (duplicates allowed)
fn rows() -> (vk::VecM<u8>, [u8; N], usize) {
    let a: [u8; N] = kani::any();
    let n: usize = kani::any();
    kani::assume(n <= N);
    let mut v = vk::VecM::with_capacity(N);
    let mut i = 0;
    while i < N {
        if i < n { v.push(a[i]); }
        i += 1;
    }
    (v, a, n)
}
fn has(a: &[u8; N], n: usize, x: u8) -> bool {
    let mut i = 0;
    while i < N { if i < n && a[i] == x { return true; } i += 1; }
    false
}
fn has_v(v: &vk::VecM<u8>, x: u8) -> bool {
    let mut i = 0;
    while i < v.len() { if v[i] == x { return true; } i += 1; }
    false
}
/// out == exactly the rows of `cur` that are not in `prev`, in input order (multiplicity kept)
fn check_istream(out: &vk::VecM<u8>, cur: &[u8; N], n: usize, prev: &[u8; N], pn: usize) {
    let mut k = 0usize;
    let mut i = 0;
    while i < N {
        if i < n && !has(prev, pn, cur[i]) {
            assert!(k < out.len());
            assert!(out[k] == cur[i]);
            k += 1;
        }
        i += 1;
    }
    assert!(out.len() == k);
}

#[kani::proof]
#[kani::unwind(6)]
fn r2s_istream_three_firings_single_row_vecmodel() {
    let mut op: Relation2StreamOperator<u8> = Relation2StreamOperator::new(StreamOperator::ISTREAM, 0);
    let one = || { let (mut v, a, n) = rows(); let n1 = if n > 1 { 1 } else { n }; v.truncate(n1); (v, a, n1) };
    let empty = [0u8; N];
    let (v1, a1, n1) = one();
    let o1 = op.eval(v1, 1);
    check_istream(&o1, &a1, n1, &empty, 0);
    let (v2, a2, n2) = one();
    let o2 = op.eval(v2, 2);
    check_istream(&o2, &a2, n2, &a1, n1);
    let (v3, a3, n3) = one();
    let o3 = op.eval(v3, 3);
    check_istream(&o3, &a3, n3, &a2, n2);
    kani::cover!(n1 == 1 && n2 == 0 && n3 == 1 && a3[0] == a1[0] && o3.len() == 1, "a row vanishes in a firing with nothing new and returns");
    std::mem::forget(o1); std::mem::forget(o2); std::mem::forget(o3); std::mem::forget(op);
}
