// C19 -- compute_repairs / violates_constraints (datalog/src/reasoning.rs) over join_rule / matches_rule_pattern
// (datalog/src/reasoning/rules.rs), extracted verbatim (T3); `Reasoner` is reduced to the one field they read.
//
// Universe: facts (0, p, 0) with p in {0,1,2}; one integrity constraint with two GROUND premises (0,q1,0), (0,q2,0)
// (q1 == q2 allowed: a fact that is inconsistent on its own). A set of facts is consistent iff it does not contain
// both premise facts -- that closed form is the oracle; nothing of the search is re-implemented.
use shared::terms::Term as T_;
fn ground(p: u32) -> (T_, T_, T_) { (T_::Constant(0), T_::Constant(p), T_::Constant(0)) }
fn fact(p: u32) -> Triple { Triple { subject: 0, predicate: p, object: 0 } }

// Rule.premise / Reasoner.constraints are the model's INLINE fixed-capacity Vec in the checked build (a `Term` read
// back from any heap object -- std Vec, Box -- loses its niche-encoded discriminant in CBMC and the String-keyed
// Variable arms get explored: measured 8.8 M variables for one join_remaining call) and std's Vec in the replay build.
fn reasoner(q1: u32, q2: u32) -> Reasoner {
    let mut rule = Rule { premise: Default::default(), negative_premise: Default::default(), filters: Default::default(), conclusion: Default::default() };
    rule.premise.push(ground(q1));
    rule.premise.push(ground(q2));
    let mut r = Reasoner { constraints: Default::default() };
    r.constraints.push(rule);
    r
}

/// the oracle: is `mask` (bit k = fact k) a subset-maximal consistent subset of `present`?
fn is_maximal_consistent(mask: u8, present: u8, q1: u32, q2: u32) -> bool {
    let bad = (1u8 << q1) | (1u8 << q2);
    let consistent = |m: u8| m & bad != bad;
    if mask & !present != 0 || !consistent(mask) { return false; }
    let mut k = 0;
    while k < 3 {
        let b = 1u8 << k;
        if present & b != 0 && mask & b == 0 && consistent(mask | b) { return false; }
        k += 1;
    }
    true
}

fn repairs_n<const N: usize, const Q1: u32, const Q2: u32>() {
    // the constraint is concrete per harness: a symbolic constant inside `Term` (niche-encoded enum next to a String
    // payload) makes CBMC lose the enum discriminant and explore the String-keyed Variable arms (measured: out of memory)
    let (q1, q2) = (Q1, Q2);
    let r = reasoner(q1, q2);
    let mut facts: HashSet<Triple> = HashSet::new();
    let mut present = 0u8;
    let mut i = 0;
    while i < N {
        let p: u32 = kani::any();
        kani::assume(p < 3);
        facts.insert(fact(p)); // insertion order (hence iteration order of the model) is symbolic
        present |= 1 << p;
        i += 1;
    }
    let repairs = r.compute_repairs(&facts);
    // every returned repair is a subset-maximal consistent subset of the facts ...
    let mut seen_masks = [false; 8];
    let mut i = 0;
    while i < repairs.len() {
        let rep = &repairs[i];
        let mut mask = 0u8;
        let mut n = 0;
        let mut k = 0;
        while k < 3 { if rep.contains(&fact(k)) { mask |= 1 << k; n += 1; } k += 1; }
        assert!(rep.len() == n, "a repair contains only facts of the input");
        assert!(is_maximal_consistent(mask, present, q1, q2), "every repair is a subset-maximal consistent subset");
        seen_masks[mask as usize] = true;
        i += 1;
    }
    // ... and every subset-maximal consistent subset is returned
    // (straight-line on purpose: the harness unwind bound is dictated by the search, not by this oracle loop)
    let chk = |m: u8| { if is_maximal_consistent(m, present, q1, q2) { assert!(seen_masks[m as usize], "every subset-maximal consistent subset is a repair"); } };
    chk(0); chk(1); chk(2); chk(3); chk(4); chk(5); chk(6); chk(7);
    // in particular: a fact in no conflict is in every repair
    let mut k = 0u32;
    while k < 3 {
        if present & (1 << k) != 0 && k != q1 && k != q2 {
            let mut i = 0;
            while i < repairs.len() { assert!(repairs[i].contains(&fact(k)), "a fact involved in no conflict is in every repair"); i += 1; }
        }
        k += 1;
    }
    kani::cover!(repairs.len() >= 2, "a conflict with two repairs");
    kani::cover!(repairs.len() == 1, "a single repair (consistent set, or a self-conflicting fact removed)");
    std::mem::forget(repairs); std::mem::forget(facts); std::mem::forget(r);
}

#[kani::proof]
#[kani::unwind(6)]
fn repairs_exact_2_facts_conflict01() { repairs_n::<2, 0, 1>() }

#[kani::proof]
#[kani::unwind(14)]
fn repairs_exact_3_facts_conflict01() { repairs_n::<3, 0, 1>() }

#[kani::proof]
#[kani::unwind(14)]
fn repairs_exact_3_facts_selfconflict0() { repairs_n::<3, 0, 0>() }
