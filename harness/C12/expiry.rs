// C12 -- expiry algebra: "the expiry time kept for each fact is the latest time until which some
// derivation of it stays fully supported" = max over derivations of min over premises.
// Real bodies of shared::provenance::ExpirationProvenance (Provenance impl) and
// shared::tag_store::TagStore::<ExpirationProvenance>::{new,get_tag,set_tag,update_disjunction,has_explicit_tag,len}.
use shared::provenance::{ExpirationProvenance, Provenance};
use shared::tag_store::TagStore;
use shared::triple::Triple;

fn mx(a: u64, b: u64) -> u64 { if a > b { a } else { b } }
fn mn(a: u64, b: u64) -> u64 { if a < b { a } else { b } }

#[kani::proof]
fn expiry_semiring_laws() {
    let p = ExpirationProvenance;
    let a: u64 = kani::any();
    let b: u64 = kani::any();
    let c: u64 = kani::any();
    // the operators as functions
    assert!(p.conjunction(&a, &b) == mn(a, b));
    assert!(p.disjunction(&a, &b) == mx(a, b));
    // identities / annihilators: static facts (one = never expires) do not shorten a derivation,
    // an expired premise (zero) kills it
    assert!(p.one() == u64::MAX && p.zero() == 0);
    assert!(p.conjunction(&a, &p.one()) == a && p.conjunction(&p.one(), &a) == a);
    assert!(p.disjunction(&a, &p.zero()) == a && p.disjunction(&p.zero(), &a) == a);
    assert!(p.conjunction(&a, &p.zero()) == p.zero());
    assert!(p.disjunction(&a, &p.one()) == p.one());
    // evaluation-order independence
    assert!(p.conjunction(&a, &b) == p.conjunction(&b, &a));
    assert!(p.disjunction(&a, &b) == p.disjunction(&b, &a));
    assert!(p.conjunction(&p.conjunction(&a, &b), &c) == p.conjunction(&a, &p.conjunction(&b, &c)));
    assert!(p.disjunction(&p.disjunction(&a, &b), &c) == p.disjunction(&a, &p.disjunction(&b, &c)));
    assert!(p.conjunction(&a, &a) == a && p.disjunction(&a, &a) == a);
    assert!(p.conjunction(&a, &p.disjunction(&b, &c)) == p.disjunction(&p.conjunction(&a, &b), &p.conjunction(&a, &c)));
    // absorption (a second, weaker derivation never changes the kept expiry)
    assert!(p.disjunction(&a, &p.conjunction(&a, &b)) == a);
    // fixpoint test used by the store
    assert!(p.is_saturated(&a, &b) == (a == b));
    assert!(p.saturate(&a) == a);
    assert!(p.tag_from_probability(0.5) == u64::MAX);
    kani::cover!(a < b && b < c && c < u64::MAX);
    kani::cover!(a == u64::MAX && b == 0);
}

fn any_triple() -> Triple {
    Triple { subject: kani::any(), predicate: kani::any(), object: kani::any() }
}

/// set + 2 updates on up to 2 full-width symbolic triples
#[kani::proof]
#[kani::unwind(6)]
fn tagstore_expiry_updates_2() {
    let mut ts = TagStore::new(ExpirationProvenance);
    let t1 = any_triple();
    let t2 = any_triple();
    let e0: u64 = kani::any();
    let e1: u64 = kani::any();
    let e2: u64 = kani::any();
    // a fact nobody tagged never expires
    assert!(ts.get_tag(&t1) == u64::MAX);
    ts.set_tag(&t1, e0);
    assert!(ts.get_tag(&t1) == e0);
    let ch1 = ts.update_disjunction(&t1, &e1);
    let m1 = mx(e0, e1);
    assert!(ch1 == (e1 > e0)); // re-trigger exactly on strict improvement
    assert!(ts.get_tag(&t1) == m1);
    let before2 = ts.get_tag(&t2);
    assert!(before2 == if t2 == t1 { m1 } else { u64::MAX });
    let ch2 = ts.update_disjunction(&t2, &e2);
    assert!(ch2 == (e2 > before2));
    assert!(ts.get_tag(&t2) == mx(before2, e2));
    // an update of one fact never changes another
    if t1 != t2 {
        assert!(ts.get_tag(&t1) == m1);
    }
    kani::cover!(t1 != t2 && ch1 && !ch2);
    kani::cover!(t1 == t2 && ch2);
    std::mem::forget(ts);
}

/// k updates on one triple interleaved with a second one: kept value = max(initial, offered)
fn updates_k<const K: usize>() {
    let mut ts = TagStore::new(ExpirationProvenance);
    let t1 = any_triple();
    let t2 = any_triple();
    kani::assume(t1 != t2);
    let init: u64 = kani::any();
    ts.set_tag(&t1, init);
    let other: u64 = kani::any();
    ts.set_tag(&t2, other);
    let mut best = init;
    let mut any_change = false;
    let mut i = 0;
    while i < K {
        let e: u64 = kani::any();
        let on_t1: bool = kani::any();
        if on_t1 {
            let ch = ts.update_disjunction(&t1, &e);
            assert!(ch == (e > best));
            if e > best { best = e; any_change = true; }
        } else {
            // min over premises offered as a new derivation of t1 through t2
            let via = ExpirationProvenance.conjunction(&e, &ts.get_tag(&t2));
            let ch = ts.update_disjunction(&t1, &via);
            assert!(ch == (via > best));
            if via > best { best = via; any_change = true; }
        }
        assert!(ts.get_tag(&t1) == best);
        assert!(ts.get_tag(&t1) >= init); // never lowered
        assert!(ts.get_tag(&t2) == other);
        i += 1;
    }
    kani::cover!(any_change && best < u64::MAX);
    std::mem::forget(ts);
}

#[kani::proof]
#[kani::unwind(6)]
fn tagstore_expiry_updates_3() { updates_k::<3>() }

#[kani::proof]
#[kani::unwind(8)]
fn tagstore_expiry_updates_5() { updates_k::<5>() }

/// set_tag(one) means "absent"; len/has_explicit_tag agree; u64::MAX-1 is an ordinary expiry
#[kani::proof]
#[kani::unwind(6)]
fn tagstore_one_is_absent() {
    let mut ts = TagStore::new(ExpirationProvenance);
    let t1 = any_triple();
    let e: u64 = kani::any();
    ts.set_tag(&t1, e);
    assert!(ts.has_explicit_tag(&t1) == (e != u64::MAX));
    assert!(ts.len() == if e != u64::MAX { 1 } else { 0 });
    assert!(ts.get_tag(&t1) == e);
    let f: u64 = kani::any();
    ts.set_tag(&t1, f);
    assert!(ts.get_tag(&t1) == f);
    assert!(ts.has_explicit_tag(&t1) == (f != u64::MAX));
    assert!(ts.len() == if f != u64::MAX { 1 } else { 0 });
    // a static fact can never be improved upon
    let g: u64 = kani::any();
    if f == u64::MAX {
        assert!(!ts.update_disjunction(&t1, &g));
        assert!(ts.get_tag(&t1) == u64::MAX);
    }
    kani::cover!(e == u64::MAX - 1);
    kani::cover!(e != u64::MAX && f == u64::MAX);
    std::mem::forget(ts);
}
