// C09 -- add_to_window (experimental job s2r_add: Vec model for s2r.rs)
// ------------------------------------------------------------------ add_to_window: assignment, eviction, choice of the reported window
// Observation of reports: the single-thread callback stores, per firing, the bit mask of reported items
// (item i = bit i) in a static; the channel consumer is not registered (Sender::send is stubbed: mpsc code
// makes kani-compiler ICE and is not the subject).
static mut NFIRE: usize = 0;
static mut FIRE_MASK: [u8; 4] = [0; 4];
fn stub_send<T>(_s: &std::sync::mpsc::Sender<T>, t: T) -> Result<(), std::sync::mpsc::SendError<T>> { std::mem::forget(t); Ok(()) }

fn observed(width: usize, slide: usize) -> CSPARQLWindow<u8> {
    let mut report = Report::new();
    report.add(ReportStrategy::OnWindowClose);
    let mut w: CSPARQLWindow<u8> = CSPARQLWindow::new(width, slide, report, Tick::TimeDriven, String::new());
    w.register_callback(Box::new(|c: ContentContainer<u8>| unsafe {
        let mut m = 0u8;
        for it in c.iter() { m |= 1 << *it; }
        if NFIRE < 4 { FIRE_MASK[NFIRE] = m; }
        NFIRE += 1;
        std::mem::forget(c);
    }));
    w
}
/// is `mask` exactly the set of items (bit i <-> timestamp t[i], i < n) inside ONE aligned interval [c-width, c), c <= now?
fn is_one_aligned_interval(mask: u8, t: &[usize; 3], n: usize, width: usize, slide: usize, now: usize, _tmax: usize) -> bool {
    // candidates: c = 0, slide, 2*slide, ... <= now
    let mut c = 0usize;
    let mut ok = false;
    while c <= now {
        let lo = c.saturating_sub(width);
        let mut exp = 0u8;
        let mut i = 0;
        while i < 3 { if i < n && lo <= t[i] && t[i] < c { exp |= 1 << i; } i += 1; }
        if exp == mask { ok = true; }
        c += slide;
    }
    ok
}

/// N in-order items (duplicate timestamps and gaps allowed); after each: what was reported and what is kept
fn adds<const N: usize, const WMAX: usize, const TMAX: usize>() {
    let width: usize = kani::any();
    let slide: usize = kani::any();
    kani::assume(width >= 1 && width <= WMAX && slide >= 1 && slide <= WMAX);
    adds_with::<N, TMAX>(width, slide)
}
/// the same with a CONCRETE window configuration (symbolic timestamps only): what fits the solver for add_to_window
fn adds_fixed<const N: usize, const W: usize, const S: usize, const TMAX: usize>() { adds_with::<N, TMAX>(W, S) }
fn adds_with<const N: usize, const TMAX: usize>(width: usize, slide: usize) {
    let mut w = observed(width, slide);
    let mut t = [0usize; 3];
    let mut last_trigger: Option<usize> = None;
    let mut k = 0;
    while k < N {
        let ts: usize = kani::any();
        kani::assume(ts <= TMAX && (k == 0 || ts >= t[k - 1])); // in-order stream
        t[k] = ts;
        let before = unsafe { NFIRE };
        w.add_to_window(k as u8, ts);
        let fired = unsafe { NFIRE } - before;
        assert!(fired <= 1);
        if fired == 1 {
            // content = exactly the earlier items of one aligned interval closing at or before ts (none missing, none foreign)
            let m = unsafe { FIRE_MASK[before] };
            assert!(is_one_aligned_interval(m, &t, k, width, slide, ts, TMAX));
            // reports are triggered at strictly increasing times
            if let Some(lt) = last_trigger { assert!(ts > lt); }
            last_trigger = Some(ts);
        }
        // kept windows: each contains ts, is aligned, and holds exactly the items so far whose time lies in it
        for (win, c) in w.active_windows.iter() {
            assert!(win.open <= ts && ts < win.close);
            assert!(win.close % slide == 0 && win.open == win.close.saturating_sub(width));
            let mut m = 0u8;
            for it in c.iter() { m |= 1 << *it; }
            let mut exp = 0u8;
            let mut i = 0;
            while i < 3 { if i <= k && win.open <= t[i] && t[i] < win.close { exp |= 1 << i; } i += 1; }
            assert!(m == exp);
        }
        k += 1;
    }
    kani::cover!(unsafe { NFIRE } >= 1, "a window was reported");
    if N >= 2 { kani::cover!(unsafe { NFIRE } >= 1 && unsafe { FIRE_MASK[0] } != 0, "a non-empty window was reported"); }
    std::mem::forget(w);
}

#[kani::proof]
#[kani::unwind(8)]
#[kani::stub(std::sync::mpsc::Sender::send, stub_send)]
fn add_to_window_1_item() { adds::<1, 2, 4>() }

#[kani::proof]
#[kani::unwind(8)]
#[kani::stub(std::sync::mpsc::Sender::send, stub_send)]
fn add_to_window_2_items() { adds::<2, 2, 4>() }

#[kani::proof]
#[kani::unwind(9)]
#[kani::stub(std::sync::mpsc::Sender::send, stub_send)]
fn add_to_window_3_items() { adds::<3, 2, 5>() }

// concrete (width, slide), symbolic in-order timestamps: hopping with a gap (2,5), sliding with a width that is not a
// multiple of the slide (3,2), tumbling (2,2)
#[kani::proof]
#[kani::unwind(5)]
#[kani::stub(std::sync::mpsc::Sender::send, stub_send)]
fn add_to_window_w2_s5_2_items() { adds_fixed::<2, 2, 5, 6>() }

#[kani::proof]
#[kani::unwind(5)]
#[kani::stub(std::sync::mpsc::Sender::send, stub_send)]
fn add_to_window_w2_s5_3_items() { adds_fixed::<3, 2, 5, 11>() }

#[kani::proof]
#[kani::unwind(6)]
#[kani::stub(std::sync::mpsc::Sender::send, stub_send)]
fn add_to_window_w3_s2_2_items() { adds_fixed::<2, 3, 2, 5>() }

#[kani::proof]
#[kani::unwind(5)]
#[kani::stub(std::sync::mpsc::Sender::send, stub_send)]
fn add_to_window_w2_s2_2_items() { adds_fixed::<2, 2, 2, 5>() }

#[kani::proof]
#[kani::unwind(5)]
#[kani::stub(std::sync::mpsc::Sender::send, stub_send)]
fn add_to_window_w2_s5_1_item() { adds_fixed::<1, 2, 5, 6>() }
