// C09 -- window scoping and report strategies. Injected (T2) at the end of a scratch copy of
// kolibrie/src/rsp/s2r.rs so that the private fields (active_windows, Window.open/close) are visible.
// Real bodies: CSPARQLWindow::{new, scope}, Report::{new, add, report}, ContentContainer::new_with_origin.

fn fresh(width: usize, slide: usize) -> CSPARQLWindow<u8> {
    CSPARQLWindow::new(width, slide, Report::new(), Tick::TimeDriven, String::new())
}

/// From "one interval [c - width, c) with c a multiple of the slide":
/// after scope(ts) every opened window is such an interval, none closes before ts, and EVERY aligned
/// interval containing ts (plus the one closing exactly at ts) has been opened.
fn scope_opens_aligned_windows<const WMAX: usize, const TMAX: usize>() {
    let width: usize = kani::any();
    let slide: usize = kani::any();
    kani::assume(width >= 1 && width <= WMAX && slide >= 1 && slide <= WMAX);
    let ts: usize = kani::any();
    kani::assume(ts <= TMAX);
    let mut w = fresh(width, slide);
    w.scope(&ts);
    let mut n = 0usize;
    for (win, c) in w.active_windows.iter() {
        n += 1;
        assert!(win.close % slide == 0);                        // aligned
        assert!(win.open == win.close.saturating_sub(width));   // [c - width, c), clipped at 0
        assert!(win.close >= ts);                               // nothing that closed in the past is (re)opened
        assert!(c.len() == 0);                                  // opened empty
    }
    assert!(n >= 1);
    // completeness, loop-free: an arbitrary aligned c whose interval contains ts
    let c: usize = kani::any();
    kani::assume(c <= TMAX + WMAX && c % slide == 0 && c > ts && c <= ts + width);
    assert!(w.active_windows.contains_key(&Window { open: c.saturating_sub(width), close: c }));
    // the interval closing exactly now must exist to be reportable
    if ts % slide == 0 {
        assert!(w.active_windows.contains_key(&Window { open: ts.saturating_sub(width), close: ts }));
    }
    kani::cover!(n == 3, "three windows opened");
    kani::cover!(slide > width && n == 1, "gap between windows");
    kani::cover!(width % slide != 0 && n >= 2, "width not a multiple of slide");
    std::mem::forget(w);
}

#[kani::proof]
#[kani::unwind(7)]
fn scope_opens_aligned_windows_w3_t8() { scope_opens_aligned_windows::<3, 8>() }

#[kani::proof]
#[kani::unwind(8)]
fn scope_opens_aligned_windows_w4_t16() { scope_opens_aligned_windows::<4, 16>() }

/// a later scope never removes or alters a window and still opens everything the later time needs
#[kani::proof]
#[kani::unwind(8)]
fn scope_twice_keeps_and_extends() {
    let width: usize = kani::any();
    let slide: usize = kani::any();
    kani::assume(width >= 1 && width <= 2 && slide >= 1 && slide <= 2);
    let t1: usize = kani::any();
    let t2: usize = kani::any();
    kani::assume(t1 <= t2 && t2 <= 5);
    let mut w = fresh(width, slide);
    w.scope(&t1);
    let probe = Window { open: kani::any(), close: kani::any() };
    let had = w.active_windows.contains_key(&probe);
    w.scope(&t2);
    if had { assert!(w.active_windows.contains_key(&probe)); }
    for (win, _c) in w.active_windows.iter() {
        assert!(win.close % slide == 0);
        assert!(win.open == win.close.saturating_sub(width));
        assert!(win.close >= t1);
    }
    let c: usize = kani::any();
    kani::assume(c <= 8 && c % slide == 0 && c > t2 && c <= t2 + width);
    assert!(w.active_windows.contains_key(&Window { open: c.saturating_sub(width), close: c }));
    kani::cover!(had && t2 > t1 + 1);
    std::mem::forget(w);
}

fn any_strategy() -> ReportStrategy {
    let k: u8 = kani::any();
    kani::assume(k < 3);
    match k {
        0 => ReportStrategy::OnWindowClose,
        1 => ReportStrategy::NonEmptyContent,
        _ => { let p: usize = kani::any(); kani::assume(p >= 1 && p <= 4); ReportStrategy::Periodic(p) }
    }
}
fn holds(s: &ReportStrategy, win: &Window, nonempty: bool, ts: usize) -> bool {
    match s {
        ReportStrategy::OnWindowClose => win.close <= ts, // "c not after the triggering timestamp"
        ReportStrategy::NonEmptyContent => nonempty,
        ReportStrategy::Periodic(p) => ts % *p == 0,
        ReportStrategy::OnContentChange => true,
    }
}

/// Report::report is the conjunction of its strategies; OnWindowClose <=> close <= ts
#[kani::proof]
#[kani::unwind(8)]
fn report_on_window_close() {
    let win = Window { open: kani::any(), close: kani::any() };
    kani::assume(win.open <= win.close && win.close <= 16);
    let ts: usize = kani::any();
    kani::assume(ts <= 16);
    let mut content: ContentContainer<u8> = ContentContainer::new();
    let nonempty: bool = kani::any();
    if nonempty { content.add(1u8, win.open); }
    let mut r: Report<u8> = Report::new();
    let two: bool = kani::any();
    let s1 = any_strategy();
    let s2 = any_strategy();
    r.add(s1.clone());
    if two { r.add(s2.clone()); }
    let got = r.report(&win, &content, ts);
    let want = holds(&s1, &win, nonempty, ts) && (!two || holds(&s2, &win, nonempty, ts));
    assert!(got == want);
    // the default single strategy
    let mut r1: Report<u8> = Report::new();
    r1.add(ReportStrategy::OnWindowClose);
    assert!(r1.report(&win, &content, ts) == (win.close <= ts));
    kani::cover!(got && two);
    kani::cover!(!got && win.close == ts + 1);
    std::mem::forget(content); std::mem::forget(r); std::mem::forget(r1);
}
