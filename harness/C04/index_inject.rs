// C04 -- DatasetIndex: the four redundant indexes, the graph catalog and the operation results against an
// abstract quad set. Injected (T2) at the end of a scratch copy of shared/src/dataset_index.rs so that the
// private index fields can be read directly. Universe U: subject, predicate, object in {0,1}, graph in
// {Default, Named(1)} -- with the container model at CAP 2 no map can overflow inside U.

const N1: GraphId = GraphId::Named(1);

fn any_id() -> u32 { let x: u32 = kani::any(); kani::assume(x < 2); x }
fn any_graph() -> GraphId { if kani::any() { N1 } else { GraphId::Default } }
fn any_quad() -> Quad { Quad { subject: any_id(), predicate: any_id(), object: any_id(), graph: any_graph() } }
fn quad(k: usize) -> Quad {
    Quad { subject: (k & 1) as u32, predicate: ((k >> 1) & 1) as u32, object: ((k >> 2) & 1) as u32,
           graph: if k & 8 != 0 { N1 } else { GraphId::Default } }
}

fn in3(ix: &GraphNestedIndex, g: GraphId, a: u32, b: u32, c: u32) -> bool {
    ix.get(&g).and_then(|m| m.get(&a)).and_then(|m| m.get(&b)).is_some_and(|s| s.contains(&c))
}
fn in_spog(ix: &SpoGraphIndex, q: &Quad) -> bool {
    ix.get(&q.subject).and_then(|m| m.get(&q.predicate)).and_then(|m| m.get(&q.object)).is_some_and(|s| s.contains(&q.graph))
}
/// the quad is present in all four indexes / in none (the value is what gspo says)
fn agree(idx: &DatasetIndex, q: &Quad) -> bool {
    let a = in3(&idx.gspo, q.graph, q.subject, q.predicate, q.object);
    a == in3(&idx.gpos, q.graph, q.predicate, q.object, q.subject)
        && a == in3(&idx.gosp, q.graph, q.object, q.subject, q.predicate)
        && a == in_spog(&idx.spog, q)
}

// ------------------------------------------------------------------ bounded histories from the empty store
/// one symbolic insert on the empty store, then an arbitrary probe in each index
#[kani::proof]
#[kani::unwind(4)]
fn ins_then_probe() {
    let mut idx = DatasetIndex::new();
    let q1 = any_quad();
    assert!(idx.insert_quad(&q1));
    let r = any_quad();
    let expect = r == q1;
    assert!(idx.contains_quad(&r) == expect);
    assert!(in3(&idx.gspo, r.graph, r.subject, r.predicate, r.object) == expect);
    assert!(in3(&idx.gpos, r.graph, r.predicate, r.object, r.subject) == expect);
    assert!(in3(&idx.gosp, r.graph, r.object, r.subject, r.predicate) == expect);
    assert!(idx.graph_exists(N1) == (q1.graph == N1));
    assert!(idx.graph_exists(GraphId::Default));
    assert!(!idx.insert_quad(&q1)); // a duplicate changes nothing and says so
    assert!(idx.contains_quad(&r) == expect);
    kani::cover!(expect && r.graph == N1);
    std::mem::forget(idx);
}

/// create / drop of EMPTY graphs and their results; quads elsewhere are untouched
#[kani::proof]
#[kani::unwind(4)]
fn create_drop_empty_graph() {
    let mut idx = DatasetIndex::new();
    let s = any_id(); let p = any_id(); let o = any_id();
    let q = Quad { subject: s, predicate: p, object: o, graph: GraphId::Default };
    idx.insert_quad(&q);
    assert!(!idx.graph_exists(N1));
    assert!(!idx.drop_graph(N1));              // missing graph
    assert!(!idx.create_graph(GraphId::Default)); // default graph always exists
    assert!(idx.create_graph(N1));
    assert!(idx.graph_exists(N1));
    assert!(!idx.create_graph(N1));            // already there
    assert!(idx.contains_quad(&q));
    assert!(idx.drop_graph(N1));
    assert!(!idx.graph_exists(N1));
    assert!(idx.contains_quad(&q));
    kani::cover!(true, "end reached");
    std::mem::forget(idx);
}

/// insert, then delete an arbitrary quad: each of the four indexes read through its own key order, pruning to
/// empty, identity of the named graph survives the deletion of its last quad
#[kani::proof]
#[kani::unwind(4)]
fn ins_del_four_indexes() {
    let mut idx = DatasetIndex::new();
    let q1 = any_quad();
    idx.insert_quad(&q1);
    let q2 = any_quad();
    let deleted = idx.delete_quad(&q2);
    assert!(deleted == (q1 == q2));
    let r = any_quad();
    let expect = r == q1 && r != q2;
    assert!(in3(&idx.gspo, r.graph, r.subject, r.predicate, r.object) == expect);
    assert!(in3(&idx.gpos, r.graph, r.predicate, r.object, r.subject) == expect);
    assert!(in3(&idx.gosp, r.graph, r.object, r.subject, r.predicate) == expect);
    assert!(idx.contains_quad(&r) == expect);
    if deleted { assert!(idx.gspo.is_empty() && idx.gpos.is_empty() && idx.gosp.is_empty() && idx.spog.is_empty()); }
    assert!(idx.graph_exists(N1) == (q1.graph == N1));
    kani::cover!(deleted && q1.graph == N1, "last quad of the named graph deleted");
    kani::cover!(!deleted && expect);
    std::mem::forget(idx);
}

/// two inserts (second key at every map level), then insert-or-delete: membership, identity, results
#[kani::proof]
#[kani::unwind(4)]
fn ins_ins_then_op() {
    let mut idx = DatasetIndex::new();
    let q1 = any_quad();
    let q2 = any_quad();
    idx.insert_quad(&q1);
    let second = idx.insert_quad(&q2);
    assert!(second == (q2 != q1));
    let q3 = any_quad();
    let del: bool = kani::any();
    let had = q3 == q1 || q3 == q2;
    let ret = if del { idx.delete_quad(&q3) } else { idx.insert_quad(&q3) };
    assert!(ret == if del { had } else { !had });
    let r = any_quad();
    let expect = if del { (r == q1 || r == q2) && r != q3 } else { r == q1 || r == q2 || r == q3 };
    assert!(idx.contains_quad(&r) == expect);
    assert!(agree(&idx, &r));
    assert!(in3(&idx.gpos, r.graph, r.predicate, r.object, r.subject) == expect);
    assert!(idx.graph_exists(N1) == (q1.graph == N1 || q2.graph == N1 || (!del && q3.graph == N1)));
    kani::cover!(del && had && q1 != q2 && q1.subject == q2.subject && q1.graph == q2.graph, "delete one of two quads sharing a subject");
    kani::cover!(!del && !had && q1 != q2, "three distinct quads");
    std::mem::forget(idx);
}

// ------------------------------------------------------------------ one operation from an ARBITRARY state
/// an arbitrary store over U: every slot of every (nested) map symbolic
fn any_index() -> DatasetIndex {
    let nested = || vk::any_map(any_id, || vk::any_map(any_id, || vk::any_set(any_id)));
    DatasetIndex {
        gspo: vk::any_map(any_graph, nested),
        gpos: vk::any_map(any_graph, nested),
        gosp: vk::any_map(any_graph, nested),
        spog: vk::any_map(any_id, || vk::any_map(any_id, || vk::any_map(any_id, || vk::any_set(any_graph)))),
        named_graphs: vk::any_set(|| 1u32),
    }
}
fn nested_ok(m: &NestedIndex) -> bool {
    vk::keys_distinct(m) && vk::all_values(m, |a| !a.is_empty() && vk::keys_distinct(a) && vk::all_values(a, |s| !s.is_empty() && vk::elems_distinct(s)))
}
/// structural part of the representation invariant: keys are distinct (what std's HashMap guarantees) and no
/// emptied map or set is left behind at any level (insert never creates one, delete prunes)
fn shape_ok(idx: &DatasetIndex) -> bool {
    vk::keys_distinct(&idx.gspo) && vk::all_values(&idx.gspo, |n| !n.is_empty() && nested_ok(n))
        && vk::keys_distinct(&idx.gpos) && vk::all_values(&idx.gpos, |n| !n.is_empty() && nested_ok(n))
        && vk::keys_distinct(&idx.gosp) && vk::all_values(&idx.gosp, |n| !n.is_empty() && nested_ok(n))
        && vk::keys_distinct(&idx.spog)
        && vk::all_values(&idx.spog, |a| !a.is_empty() && vk::keys_distinct(a)
            && vk::all_values(a, |b| !b.is_empty() && vk::keys_distinct(b) && vk::all_values(b, |s| !s.is_empty() && vk::elems_distinct(s))))
        && vk::elems_distinct(&idx.named_graphs)
}
/// the four indexes hold the same quads (checked for each of the 16 quads of U)
fn all_agree(idx: &DatasetIndex) -> bool {
    let mut ok = true;
    let mut k = 0;
    while k < 16 { if !agree(idx, &quad(k)) { ok = false; } k += 1; }
    ok
}
fn n1_nonempty_abs(idx: &DatasetIndex) -> bool {
    let mut any = false;
    let mut k = 8;
    while k < 16 { if in_spog(&idx.spog, &quad(k)) { any = true; } k += 1; }
    any
}

/// The inductive step, one harness per operation kind. Pre-state: ANY store over U satisfying the
/// representation invariant (not only those a short history reaches -- this includes stores whose catalog
/// lacks a non-empty graph, as after loading an old serialisation). One symbolic operation. Post: the
/// invariant again, the abstract transition Q' = Q +/- {q} observed through every read path and each of the
/// four physical indexes, graph identity E' by the textbook rule, and the operation's boolean result.
/// Together with `new_satisfies_invariant` this covers histories of every length over U.
struct Pre { r: Quad, pre_r: bool, pre_e: bool, q: Quad, pre_q: bool }
fn pre_state(idx: &DatasetIndex) -> Pre {
    let r = any_quad();                       // arbitrary probe, fixed before the operation
    let pre_r = in_spog(&idx.spog, &r);
    // identity of Named(1): "from creation or first insert"
    let pre_e = idx.named_graphs.contains(&1) || n1_nonempty_abs(idx);
    // the read paths agree with the abstract state already now
    assert!(idx.contains_quad(&r) == pre_r);
    assert!(idx.graph_exists(N1) == pre_e);
    assert!(idx.graph_exists(GraphId::Default));
    let q = any_quad();
    let pre_q = in_spog(&idx.spog, &q);
    Pre { r, pre_r, pre_e, q, pre_q }
}
fn post_state(idx: &DatasetIndex, r: &Quad, exp_r: bool, exp_e: bool) {
    // abstract transition, observed through every read path
    assert!(idx.contains_quad(r) == exp_r);
    assert!(in3(&idx.gspo, r.graph, r.subject, r.predicate, r.object) == exp_r);
    assert!(in3(&idx.gpos, r.graph, r.predicate, r.object, r.subject) == exp_r);
    assert!(in3(&idx.gosp, r.graph, r.object, r.subject, r.predicate) == exp_r);
    assert!(idx.graph_exists(N1) == exp_e);
    // the invariant is re-established (pruning, distinct keys)
    assert!(shape_ok(idx));
}

#[kani::proof]
#[kani::unwind(18)]
fn step_insert_from_any_state() {
    let mut idx = any_valid_index();
    let Pre { r, pre_r, pre_e, q, pre_q } = pre_state(&idx);
    let changed = idx.insert_quad(&q);
    assert!(changed == !pre_q);
    post_state(&idx, &r, pre_r || r == q, pre_e || q.graph == N1);
    kani::cover!(!pre_q && pre_r && r != q, "insert next to existing quads");
    kani::cover!(!pre_q && pre_r && r != q && r.subject == q.subject && r.predicate == q.predicate && r.graph == q.graph, "second object in an existing set");
    kani::cover!(pre_q, "duplicate insert");
    kani::cover!(!pre_e && q.graph == N1, "first insert creates the graph identity");
    std::mem::forget(idx);
}

#[kani::proof]
#[kani::unwind(18)]
fn step_delete_from_any_state() {
    let mut idx = any_valid_index();
    let Pre { r, pre_r, pre_e, q, pre_q } = pre_state(&idx);
    let changed = idx.delete_quad(&q);
    assert!(changed == pre_q);
    // identity is independent of content: deleting (even the last quad) never removes it
    post_state(&idx, &r, pre_r && r != q, pre_e);
    kani::cover!(pre_q && !n1_nonempty_abs(&idx) && q.graph == N1, "last quad of the named graph deleted");
    kani::cover!(pre_q && pre_r && r != q && r.subject == q.subject && r.predicate == q.predicate && r.graph == q.graph, "delete leaves a sibling in the same set");
    kani::cover!(!pre_q && pre_r, "delete of an absent quad");
    std::mem::forget(idx);
}

#[kani::proof]
#[kani::unwind(18)]
fn step_create_from_any_state() {
    let mut idx = any_valid_index();
    let Pre { r, pre_r, pre_e, q: _, pre_q: _ } = pre_state(&idx);
    let g = any_graph();
    let created = idx.create_graph(g);
    assert!(created == (g == N1 && !pre_e));
    post_state(&idx, &r, pre_r, pre_e || g == N1);
    kani::cover!(!pre_e && g == N1, "graph created");
    kani::cover!(pre_e && g == N1 && !idx.named_graphs.is_empty(), "existing graph");
    std::mem::forget(idx);
}

#[kani::proof]
#[kani::unwind(18)]
fn new_satisfies_invariant() {
    let idx = DatasetIndex::new();
    assert!(shape_ok(&idx) && all_agree(&idx));
    assert!(!n1_nonempty_abs(&idx) && !idx.graph_exists(N1));
    let mut c = any_index();
    kani::assume(shape_ok(&c) && all_agree(&c));
    c.clear();
    assert!(shape_ok(&c) && all_agree(&c) && !n1_nonempty_abs(&c) && !c.graph_exists(N1));
    let r = any_quad();
    assert!(!c.contains_quad(&r));
    kani::cover!(true, "end reached");
    std::mem::forget(idx); std::mem::forget(c);
}

// ------------------------------------------------------------------ Vec-returning read paths (job `idxv`: Vec model, T1v)
fn opt_id() -> Option<u32> { if kani::any() { Some(any_id()) } else { None } }
fn matches(r: &Quad, g: GraphId, s: Option<u32>, p: Option<u32>, o: Option<u32>) -> bool {
    r.graph == g && s.map_or(true, |x| x == r.subject) && p.map_or(true, |x| x == r.predicate) && o.map_or(true, |x| x == r.object)
}
fn any_valid_index() -> DatasetIndex {
    let idx = any_index();
    kani::assume(shape_ok(&idx));
    kani::assume(all_agree(&idx));
    idx
}

/// every lookup shape of one graph, from an arbitrary store: exactly the matching quads, each once
#[kani::proof]
#[kani::unwind(18)]
fn query_graph_from_any_state() {
    let idx = any_valid_index();
    let (g, s, p, o) = (any_graph(), opt_id(), opt_id(), opt_id());
    let res = idx.query_graph(g, s, p, o);
    let r = any_quad();
    let mut n = 0usize;
    for x in res.iter() { if *x == r { n += 1; } }
    let expect = in_spog(&idx.spog, &r) && matches(&r, g, s, p, o);
    assert!(n == expect as usize);
    kani::cover!(res.len() >= 3 && s.is_none() && p.is_some() && o.is_none(), "predicate-only shape with several answers");
    kani::cover!(res.len() == 2 && s.is_some() && p.is_none() && o.is_some(), "s?o shape, two answers");
    kani::cover!(res.len() == 0 && expect == false && in_spog(&idx.spog, &r) && r.graph != g, "same triple only in the other graph");
    std::mem::forget(res); std::mem::forget(idx);
}

/// default-graph triples view
#[kani::proof]
#[kani::unwind(18)]
fn query_default_from_any_state() {
    let idx = any_valid_index();
    let (s, p, o) = (opt_id(), opt_id(), opt_id());
    let res = idx.query_default(s, p, o);
    let r = any_quad();
    kani::assume(r.graph == GraphId::Default);
    let mut n = 0usize;
    for t in res.iter() { if t.subject == r.subject && t.predicate == r.predicate && t.object == r.object { n += 1; } }
    let expect = in_spog(&idx.spog, &r) && matches(&r, GraphId::Default, s, p, o);
    assert!(n == expect as usize);
    kani::cover!(res.len() >= 2);
    std::mem::forget(res); std::mem::forget(idx);
}

/// graph listing: identities are independent of content
#[kani::proof]
#[kani::unwind(18)]
fn graph_listing_from_any_state() {
    let idx = any_valid_index();
    let e = idx.named_graphs.contains(&1) || n1_nonempty_abs(&idx);
    let ng = idx.named_graphs();
    assert!(ng.len() == e as usize);
    if e { assert!(ng[0] == N1); }
    let gs = idx.graphs();
    assert!(gs.len() == 1 + e as usize);
    assert!(gs[0] == GraphId::Default);
    if e { assert!(gs[1] == N1); }
    let r = any_quad();
    let gt = idx.graphs_for_triple(&r.triple());
    let mut n = 0usize;
    for g in gt.iter() { if *g == r.graph { n += 1; } }
    assert!(n == in_spog(&idx.spog, &r) as usize);
    assert!(gt.len() <= 2);
    kani::cover!(e && !n1_nonempty_abs(&idx), "empty named graph is listed");
    kani::cover!(gt.len() == 2, "triple in both graphs");
    std::mem::forget(ng); std::mem::forget(gs); std::mem::forget(gt); std::mem::forget(idx);
}

/// lookup across named graphs, with and without a visibility filter
#[kani::proof]
#[kani::unwind(18)]
fn query_named_graphs_from_any_state() {
    let idx = any_valid_index();
    let (s, p, o) = (opt_id(), opt_id(), opt_id());
    let filtered: bool = kani::any();
    let vis = vk::any_set(any_graph);
    kani::assume(vk::elems_distinct(&vis));
    let res = idx.query_named_graphs(s, p, o, if filtered { Some(&vis) } else { None });
    let r = any_quad();
    let mut n = 0usize;
    for x in res.iter() { if *x == r { n += 1; } }
    let visible = !filtered || vis.contains(&r.graph);
    let expect = r.graph == N1 && visible && in_spog(&idx.spog, &r) && matches(&r, N1, s, p, o);
    assert!(n == expect as usize);
    kani::cover!(filtered && !vis.contains(&N1) && n1_nonempty_abs(&idx), "named graph hidden by the filter");
    kani::cover!(res.len() >= 2);
    std::mem::forget(res); std::mem::forget(vis); std::mem::forget(idx);
}

/// query_quads with and without a graph; all_quads snapshot
#[kani::proof]
#[kani::unwind(20)]
fn all_quads_from_any_state() {
    let idx = any_valid_index();
    let all = idx.all_quads();
    let r = any_quad();
    let mut n = 0usize;
    for x in all.iter() { if *x == r { n += 1; } }
    assert!(n == in_spog(&idx.spog, &r) as usize);
    kani::cover!(all.len() >= 3);
    std::mem::forget(all); std::mem::forget(idx);
}

#[kani::proof]
#[kani::unwind(20)]
fn query_quads_from_any_state() {
    let idx = any_valid_index();
    let (s, p, o) = (opt_id(), opt_id(), opt_id());
    let g: Option<GraphId> = if kani::any() { Some(any_graph()) } else { None };
    let res = idx.query_quads(s, p, o, g);
    let r = any_quad();
    let mut n = 0usize;
    for x in res.iter() { if *x == r { n += 1; } }
    let expect = in_spog(&idx.spog, &r) && g.map_or(true, |gg| gg == r.graph) && matches(&r, r.graph, s, p, o);
    assert!(n == expect as usize);
    kani::cover!(g.is_none() && res.len() >= 2);
    std::mem::forget(res); std::mem::forget(idx);
}

/// clear_graph / drop_graph of a graph WITH quads, from an arbitrary store
#[kani::proof]
#[kani::unwind(18)]
fn clear_or_drop_from_any_state() {
    let mut idx = any_valid_index();
    let r = any_quad();
    let pre_r = in_spog(&idx.spog, &r);
    let pre_e = idx.named_graphs.contains(&1) || n1_nonempty_abs(&idx);
    let g = any_graph();
    let drop: bool = kani::any();
    if drop {
        let res = idx.drop_graph(g);
        assert!(res == (g == GraphId::Default || pre_e));
    } else {
        idx.clear_graph(g);
    }
    let exp_r = pre_r && r.graph != g;
    assert!(idx.contains_quad(&r) == exp_r);
    assert!(in3(&idx.gspo, r.graph, r.subject, r.predicate, r.object) == exp_r);
    assert!(in3(&idx.gpos, r.graph, r.predicate, r.object, r.subject) == exp_r);
    assert!(in3(&idx.gosp, r.graph, r.object, r.subject, r.predicate) == exp_r);
    // clearing keeps the identity, dropping removes it; the other graph is unaffected
    let exp_e = if g == N1 && drop { false } else { pre_e };
    assert!(idx.graph_exists(N1) == exp_e);
    assert!(shape_ok(&idx));
    kani::cover!(g == N1 && !drop && n1_nonempty_abs(&idx) == false && pre_r && r.graph == N1, "named graph cleared");
    kani::cover!(g == GraphId::Default && drop && pre_r && r.graph == N1, "dropping the default graph leaves named quads");
    std::mem::forget(idx);
}

// ------------------------------------------------------------------ per-index inductive steps (spog + one graph-leading index symbolic)
fn any_spog_only() -> DatasetIndex {
    let mut idx = DatasetIndex::new();
    idx.spog = vk::any_map(any_id, || vk::any_map(any_id, || vk::any_map(any_id, || vk::any_set(any_graph))));
    idx.named_graphs = vk::any_set(|| 1u32);
    idx
}
fn spog_shape_ok(idx: &DatasetIndex) -> bool {
    vk::keys_distinct(&idx.spog)
        && vk::all_values(&idx.spog, |a| !a.is_empty() && vk::keys_distinct(a)
            && vk::all_values(a, |b| !b.is_empty() && vk::keys_distinct(b) && vk::all_values(b, |s| !s.is_empty() && vk::elems_distinct(s))))
        && vk::elems_distinct(&idx.named_graphs)
}

fn any_nested() -> GraphNestedIndex {
    vk::any_map(any_graph, || vk::any_map(any_id, || vk::any_map(any_id, || vk::any_set(any_id))))
}
fn gx_ok(m: &GraphNestedIndex) -> bool { vk::keys_distinct(m) && vk::all_values(m, |n| !n.is_empty() && nested_ok(n)) }
/// X = 0: gspo, 1: gpos, 2: gosp -- membership of quad q in index X read through X's own key order
fn in_x(idx: &DatasetIndex, x: u8, q: &Quad) -> bool {
    match x {
        0 => in3(&idx.gspo, q.graph, q.subject, q.predicate, q.object),
        1 => in3(&idx.gpos, q.graph, q.predicate, q.object, q.subject),
        _ => in3(&idx.gosp, q.graph, q.object, q.subject, q.predicate),
    }
}
fn x_index(idx: &DatasetIndex, x: u8) -> &GraphNestedIndex { match x { 0 => &idx.gspo, 1 => &idx.gpos, _ => &idx.gosp } }

/// spog and ONE graph-leading index X arbitrary and agreeing on all 16 quads; `others_arbitrary` decides whether
/// the two remaining indexes are arbitrary-unconstrained or empty
fn pair_state<const X: u8>(others_arbitrary: bool) -> DatasetIndex {
    let mut idx = any_spog_only();
    kani::assume(spog_shape_ok(&idx));
    let xi = any_nested();
    kani::assume(gx_ok(&xi));
    let (a, b) = if others_arbitrary { (any_nested(), any_nested()) } else { (GraphNestedIndex::default(), GraphNestedIndex::default()) };
    match X { 0 => { idx.gspo = xi; idx.gpos = a; idx.gosp = b; } 1 => { idx.gpos = xi; idx.gspo = a; idx.gosp = b; } _ => { idx.gosp = xi; idx.gspo = a; idx.gpos = b; } }
    let mut k = 0;
    let mut ok = true;
    while k < 16 { let q = quad(k); if in_x(&idx, X, &q) != in_spog(&idx.spog, &q) { ok = false; } k += 1; }
    kani::assume(ok);
    idx
}
fn pair_insert<const X: u8>(others_arbitrary: bool) {
    let mut idx = pair_state::<X>(others_arbitrary);
    let r = any_quad();
    let pre_r = in_spog(&idx.spog, &r);
    let q = any_quad();
    let pre_q = in_spog(&idx.spog, &q);
    let changed = idx.insert_quad(&q);
    assert!(changed == !pre_q);
    let exp_r = pre_r || r == q;
    assert!(in_spog(&idx.spog, &r) == exp_r);
    assert!(in_x(&idx, X, &r) == exp_r);
    assert!(idx.contains_quad(&r) == exp_r);
    assert!(spog_shape_ok(&idx) && gx_ok(x_index(&idx, X)));
    kani::cover!(!pre_q && pre_r && r != q && r.graph == q.graph, "insert next to an existing quad of the same graph");
    kani::cover!(pre_q, "duplicate");
    std::mem::forget(idx);
}
