// VK-REPLAY property=C15 job=qts harness=qts_merge_preserves_receiver
// failing checks (solver): [["assertion failed: enc(&mut x, a) == ia", "hx/src/lib.rs:143:5 in function p_qts::qts_merge_preserves_receiver"], ["assertion failed: enc(&mut x, b) == ib", "hx/src/lib.rs:144:5 in function p_qts::qts_merge_preserves_receiver"]]
// re-run natively against /repo (untransformed, real std containers): /verif/vk replay /verif/evidence/replay/C15-qts_merge_preserves_receiver.rs
/// Test generated for harness `p_qts::qts_merge_preserves_receiver` 
///
/// Check for `assertion`: "assertion failed: enc(&mut x, a) == ia"

#[test]
fn kani_concrete_playback_qts_merge_preserves_receiver_18197489733661773856() {
    let concrete_vals: Vec<Vec<u8>> = vec![
        // 4294967295
        vec![255, 255, 255, 255],
        // 4294967295
        vec![255, 255, 255, 255],
        // 3221225475
        vec![3, 0, 0, 192],
        // 4294967295
        vec![255, 255, 255, 255],
        // 4294967295
        vec![255, 255, 255, 255],
        // 3305112203
        vec![139, 2, 0, 197],
        // 4294967295
        vec![255, 255, 255, 255],
        // 4294967295
        vec![255, 255, 255, 255],
        // 3305112203
        vec![139, 2, 0, 197],
        // 4294967295
        vec![255, 255, 255, 255],
        // 4294967295
        vec![255, 255, 255, 255],
        // 3221225475
        vec![3, 0, 0, 192],
    ];
    kani::concrete_playback_run(concrete_vals, qts_merge_preserves_receiver);
}
