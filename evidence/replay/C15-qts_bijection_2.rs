// VK-REPLAY property=C15 job=qts harness=qts_bijection_2
// failing checks (solver): [["assertion failed: (ia == ib) == (a == b)", "hx/src/lib.rs:29:5 in function p_qts::qts_bijection_2"], ["assertion failed: enc(&mut st, a) == ia", "hx/src/lib.rs:34:5 in function p_qts::qts_bijection_2"], ["assertion failed: enc(&mut st, b) == ib", "hx/src/lib.rs:35:5 in function p_qts::qts_bijection_2"]]
// re-run natively against /repo (untransformed, real std containers): /verif/vk replay /verif/evidence/replay/C15-qts_bijection_2.rs
/// Test generated for harness `p_qts::qts_bijection_2` 
///
/// Check for `assertion`: "assertion failed: (ia == ib) == (a == b)"

#[test]
fn kani_concrete_playback_qts_bijection_2_845697901553111565() {
    let concrete_vals: Vec<Vec<u8>> = vec![
        // 7
        vec![7, 0, 0, 0],
        // 2147483648
        vec![0, 0, 0, 128],
        // 0
        vec![0, 0, 0, 0],
        // 7
        vec![7, 0, 0, 0],
        // 2147483648
        vec![0, 0, 0, 128],
        // 0
        vec![0, 0, 0, 0],
    ];
    kani::concrete_playback_run(concrete_vals, qts_bijection_2);
}
