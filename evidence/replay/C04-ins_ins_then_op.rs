// VK-REPLAY property=C04 job=idx harness=ins_ins_then_op
// failing checks (solver): [["assertion failed: idx.graph_exists(N1) ==\n(q1.graph == N1 || q2.graph == N1 || (!del && q3.graph == N1))", "shared/src/dataset_index.rs:950:5 in function dataset_index::__verif::ins_ins_then_op"]]
// re-run natively against /repo (untransformed, real std containers): /verif/vk replay /verif/evidence/replay/C04-ins_ins_then_op.rs
#[test]
fn kani_concrete_playback_ins_ins_then_op_10153576607409251564() {
    let concrete_vals: Vec<Vec<u8>> = vec![
        // 1
        vec![1, 0, 0, 0],
        // 1
        vec![1, 0, 0, 0],
        // 1
        vec![1, 0, 0, 0],
        // 0
        vec![0],
        // 1
        vec![1, 0, 0, 0],
        // 1
        vec![1, 0, 0, 0],
        // 1
        vec![1, 0, 0, 0],
        // 0
        vec![0],
        // 1
        vec![1, 0, 0, 0],
        // 1
        vec![1, 0, 0, 0],
        // 1
        vec![1, 0, 0, 0],
        // 1
        vec![1],
        // 1
        vec![1],
        // 1
        vec![1, 0, 0, 0],
        // 1
        vec![1, 0, 0, 0],
        // 1
        vec![1, 0, 0, 0],
        // 0
        vec![0],
    ];
    kani::concrete_playback_run(concrete_vals, ins_ins_then_op);
}
