// VK-REPLAY property=C15 job=dict harness=dict_merge_preserves_receiver
// failing checks (solver): [["assertion failed: (iw == ix) == (w == x)", "hx/src/lib.rs:113:5 in function p_dict::dict_merge_preserves_receiver"]]
// re-run natively against /repo (untransformed, real std containers): /verif/vk replay /verif/evidence/replay/C15-dict_merge_preserves_receiver.rs
/// Test generated for harness `p_dict::dict_merge_preserves_receiver` 
///
/// Check for `assertion`: "assertion failed: (iw == ix) == (w == x)"

#[test]
fn kani_concrete_playback_dict_merge_preserves_receiver_1508851798666095247() {
    let concrete_vals: Vec<Vec<u8>> = vec![
        // 18
        vec![18],
        // 64
        vec![64],
        // 30
        vec![30],
        // 64
        vec![64],
        // 64
        vec![64],
        // 33
        vec![33],
        // 1
        vec![1],
        // 1
        vec![1],
        // 0
        vec![0],
        // 64
        vec![64],
        // 64
        vec![64],
        // 0
        vec![0],
    ];
    kani::concrete_playback_run(concrete_vals, dict_merge_preserves_receiver);
}
