// VK-REPLAY property=C15 job=dict harness=dict_merge_preserves_receiver
// failing checks (solver): [["assertion failed: (iw == iy) == (w == y)", "hx/src/lib.rs:124:5 in function p_dict::dict_merge_preserves_receiver"]]
// re-run natively against /repo (untransformed, real std containers): /verif/vk replay /verif/evidence/replay/C15-dict_merge_preserves_receiver.rs
/// Test generated for harness `p_dict::dict_merge_preserves_receiver` 
///
/// Check for `assertion`: "assertion failed: (iw == iy) == (w == y)"

#[test]
fn kani_concrete_playback_dict_merge_preserves_receiver_11625604807295347622() {
    let concrete_vals: Vec<Vec<u8>> = vec![
        // 1
        vec![1],
        // 23
        vec![23],
        // 1
        vec![1],
        // 23
        vec![23],
        // 1
        vec![1],
        // 23
        vec![23],
        // 1
        vec![1],
        // 0
        vec![0],
        // 1
        vec![1],
        // 0
        vec![0],
        // 31
        vec![31],
        // 10
        vec![10],
        // 0
        vec![0],
    ];
    kani::concrete_playback_run(concrete_vals, dict_merge_preserves_receiver);
}
