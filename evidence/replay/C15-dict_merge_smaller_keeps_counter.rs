// VK-REPLAY property=C15 job=dict harness=dict_merge_smaller_keeps_counter
// failing checks (solver): [["assertion failed: (iw == ix) == (w == x)", "hx/src/lib.rs:148:5 in function p_dict::dict_merge_smaller_keeps_counter"]]
// re-run natively against /repo (untransformed, real std containers): /verif/vk replay /verif/evidence/replay/C15-dict_merge_smaller_keeps_counter.rs
/// Test generated for harness `p_dict::dict_merge_smaller_keeps_counter` 
///
/// Check for `assertion`: "assertion failed: (iw == ix) == (w == x)"

#[test]
fn kani_concrete_playback_dict_merge_smaller_keeps_counter_6255458115204331406() {
    let concrete_vals: Vec<Vec<u8>> = vec![
        // 65
        vec![65],
        // 16
        vec![16],
        // 65
        vec![65],
        // 2
        vec![2],
        // 66
        vec![66],
        // 28
        vec![28],
        // 0
        vec![0],
        // 0
        vec![0],
        // 1
        vec![1],
    ];
    kani::concrete_playback_run(concrete_vals, dict_merge_smaller_keeps_counter);
}
