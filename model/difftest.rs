// Native differential self-test of the container model against std (run by `vk setup` / `vk selftest-model`):
// random operation sequences (xorshift, fixed seeds) on small key ranges; every observable result must agree.
use mt::vcoll::{self, compact};
use std::collections as sc;

struct Rng(u64);
impl Rng { fn next(&mut self) -> u64 { let mut x = self.0; x ^= x << 13; x ^= x >> 7; x ^= x << 17; self.0 = x; x } fn below(&mut self, n: u64) -> u64 { self.next() % n } }

fn sorted<T: Ord>(mut v: Vec<T>) -> Vec<T> { v.sort(); v }

#[test]
fn compact_map_and_set_agree_with_std() {
    for seed in 1..400u64 {
        let mut r = Rng(seed.wrapping_mul(0x9E3779B97F4A7C15));
        let mut m: compact::HashMap<u8, u32> = compact::HashMap::new();
        let mut sm: sc::HashMap<u8, u32> = sc::HashMap::new();
        let mut s: compact::HashSet<u8> = compact::HashSet::new();
        let mut ss: sc::HashSet<u8> = sc::HashSet::new();
        for _ in 0..40 {
            let k = r.below(6) as u8; let v = r.below(100) as u32;
            match r.below(9) {
                0 | 1 => { if sm.len() < vcoll::CAP || sm.contains_key(&k) { assert_eq!(m.insert(k, v), sm.insert(k, v)); } }
                2 => assert_eq!(m.remove(&k), sm.remove(&k)),
                3 => { if sm.len() < vcoll::CAP || sm.contains_key(&k) { *m.entry(k).or_insert(v) += 1; *sm.entry(k).or_insert(v) += 1; } }
                4 => { if sm.len() < vcoll::CAP || sm.contains_key(&k) { m.entry(k).and_modify(|x| *x = (*x).max(v)).or_insert(v); sm.entry(k).and_modify(|x| *x = (*x).max(v)).or_insert(v); } }
                5 => { if ss.len() < vcoll::CAP || ss.contains(&k) { assert_eq!(s.insert(k), ss.insert(k)); } }
                6 => assert_eq!(s.remove(&k), ss.remove(&k)),
                7 => { if let Some(x) = m.get_mut(&k) { *x += 7; } if let Some(x) = sm.get_mut(&k) { *x += 7; } }
                _ => { if r.below(10) == 0 { m.clear(); sm.clear(); s.clear(); ss.clear(); } }
            }
            assert_eq!(m.len(), sm.len()); assert_eq!(m.is_empty(), sm.is_empty());
            assert_eq!(m.get(&k), sm.get(&k)); assert_eq!(m.contains_key(&k), sm.contains_key(&k));
            assert_eq!(sorted(m.iter().map(|(a, b)| (*a, *b)).collect()), sorted(sm.iter().map(|(a, b)| (*a, *b)).collect()));
            assert_eq!(sorted(m.keys().cloned().collect()), sorted(sm.keys().cloned().collect()));
            assert_eq!(sorted(m.values().cloned().collect()), sorted(sm.values().cloned().collect()));
            assert_eq!(s.len(), ss.len()); assert_eq!(s.contains(&k), ss.contains(&k));
            assert_eq!(sorted(s.iter().cloned().collect()), sorted(ss.iter().cloned().collect()));
            let c = m.clone(); assert!(c == m);
            assert_eq!(sorted(c.into_iter().collect()), sorted(sm.clone().into_iter().collect()));
            let c = s.clone(); assert!(c == s); assert!(c.is_subset(&s) && c.is_superset(&s));
            assert_eq!(sorted(c.into_iter().collect()), sorted(ss.clone().into_iter().collect()));
            let filtered: compact::HashMap<u8, u32> = m.clone().into_iter().filter(|(a, _)| a % 2 == 0).collect();
            let sfiltered: sc::HashMap<u8, u32> = sm.clone().into_iter().filter(|(a, _)| a % 2 == 0).collect();
            assert_eq!(sorted(filtered.into_iter().collect()), sorted(sfiltered.into_iter().collect()));
            assert_eq!(sorted(m.clone().into_keys().collect()), sorted(sm.clone().into_keys().collect()));
        }
    }
}

#[test]
fn vec_and_btreeset_models_agree_with_std() {
    for seed in 1..400u64 {
        let mut r = Rng(seed.wrapping_mul(0xD1B54A32D192ED03));
        let mut v: vcoll::VVec<u32> = vcoll::VVec::new();
        let mut sv: Vec<u32> = Vec::new();
        let mut b: vcoll::BTreeSetM<vcoll::VVec<u32>> = vcoll::BTreeSetM::new();
        let mut sb: sc::BTreeSet<Vec<u32>> = sc::BTreeSet::new();
        for _ in 0..40 {
            let x = r.below(5) as u32;
            match r.below(8) {
                0 | 1 | 2 => { if sv.len() < vcoll::VCAP { v.push(x); sv.push(x); } }
                3 => assert_eq!(v.pop(), sv.pop()),
                4 => { if sb.len() < vcoll::BCAP || sb.contains(&sv) { assert_eq!(b.insert(v.clone()), sb.insert(sv.clone())); } }
                5 => { let c = v.clone(); assert_eq!(c.into_iter().collect::<Vec<_>>(), sv.clone()); }
                6 => { let mut c = v.clone(); let mut sc2 = sv.clone(); c.sort_unstable(); sc2.sort_unstable(); assert_eq!(c.iter().cloned().collect::<Vec<_>>(), sc2); }
                _ => { if r.below(6) == 0 { v.clear(); sv.clear(); } }
            }
            { let mut c = v.clone(); let mut sc2 = sv.clone(); c.dedup_by_key(|x| *x / 2); sc2.dedup_by_key(|x| *x / 2); assert_eq!(c.iter().cloned().collect::<Vec<_>>(), sc2);
              let mut c1: vcoll::VVecV1<u32> = sv.iter().cloned().collect(); c1.dedup_by_key(|x| *x / 2); assert_eq!(c1.iter().cloned().collect::<Vec<_>>(), sc2);
              let mut c = v.clone(); let mut sc3 = sv.clone(); c.dedup(); sc3.dedup(); assert_eq!(c.iter().cloned().collect::<Vec<_>>(), sc3); }
            { let mut c = v.clone(); let mut s2 = sv.clone(); c.retain(|x| x % 2 == 0); s2.retain(|x| x % 2 == 0); assert_eq!(c.iter().cloned().collect::<Vec<_>>(), s2);
              let n = r.below(vcoll::VCAP as u64 + 1) as usize; c.resize(n, 9); s2.resize(n, 9); assert_eq!(c.iter().cloned().collect::<Vec<_>>(), s2);
              if n > 0 { c[n - 1] = 77; s2[n - 1] = 77; assert_eq!(c.iter().cloned().collect::<Vec<_>>(), s2); } }
            assert_eq!(v.len(), sv.len()); assert_eq!(v.is_empty(), sv.is_empty());
            assert_eq!(v.iter().cloned().collect::<Vec<_>>(), sv);
            assert_eq!(v.first(), sv.first()); assert_eq!(v.last(), sv.last()); assert_eq!(v.contains(&x), sv.contains(&x));
            for k in 0..vcoll::VCAP + 1 { assert_eq!(v.get(k), sv.get(k)); }
            assert_eq!(b.len(), sb.len()); assert_eq!(b.contains(&v), sb.contains(&sv));
            assert_eq!(b.iter().map(|w| w.iter().cloned().collect::<Vec<_>>()).collect::<Vec<_>>(), sb.iter().cloned().collect::<Vec<_>>());
            let w: vcoll::VVec<u32> = sv.iter().rev().cloned().collect();
            let sw: Vec<u32> = sv.iter().rev().cloned().collect();
            assert_eq!(v.cmp(&w), sv.cmp(&sw)); assert_eq!(v == w, sv == sw);
            let mut e = v.clone(); let mut se = sv.clone();
            if sv.len() * 2 <= vcoll::VCAP { e.extend(w); se.extend(sw); assert_eq!(e.iter().cloned().collect::<Vec<_>>(), se); }
            let mut vi: vcoll::VVecI<u32> = vcoll::VVecI::new();
            for y in sv.iter() { vi.push(*y); }
            assert_eq!(vi.iter().cloned().collect::<Vec<_>>(), sv); assert_eq!(vi.len(), sv.len());
            for k in 0..vcoll::VCAP + 1 { assert_eq!(vi.get(k), sv.get(k)); }
        }
    }
}
