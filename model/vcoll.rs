//! Verification model of std::collections::{HashMap, HashSet} (and, where a job asks for it, Vec):
//! fixed-capacity slot arrays, no heap, no MaybeUninit, concrete-index access only.
//!
//! CBMC-specific rules this file follows (each one was the difference between seconds and out-of-memory):
//!  * slots are `#[repr(u8)] enum Slot<T> { Empty, Full(T) }` -- an explicitly tagged union. `Option<(K, V)>` lets
//!    rustc hide the discriminant in a niche of K or V (e.g. an enum key such as GraphId); Kani then reads and
//!    writes the discriminant through byte offsets, CBMC loses field sensitivity and every write becomes a
//!    byte_update of the whole enclosing object (measured: 13x more SAT variables for one entry chain);
//!  * arrays are built with `[const { Slot::Empty }; CAP]`, Clone is a hand-written index loop (array::from_fn /
//!    derived array Clone go through MaybeUninit);
//!  * each map owns its slot array through a Box: one CBMC object per map. With the array stored inline, a write
//!    through a reference into a nested map updates the ROOT object (e.g. the whole DatasetIndex), which destroys
//!    constant propagation for its other fields (measured: 1 / 2 / 3 entry chains on sibling fields = 22k / 282k /
//!    640k SAT variables inline, 63k / 128k / 188k boxed). The box is a fixed-size allocation, never resized;
//!  * every lookup is `while i < CAP` over a CONCRETE index; `&mut` results are re-borrowed with `&mut
//!    self.slots[i]` (concrete `i`) inside the branch that returns, never `slots[symbolic]`, no raw pointers;
//!  * capacity overflow is `kani::assume(false)`: histories needing more keys are outside the claim.
use std::borrow::Borrow;
pub const CAP: usize = 3; // @CAP@ (patched per job by vk)

#[repr(u8)]
#[derive(Debug)]
pub enum Slot<T> { Empty = 0, Full(T) = 1 }
impl<T> Slot<T> {
    #[inline] pub fn is_full(&self) -> bool { matches!(self, Slot::Full(_)) }
    #[inline] pub fn get(&self) -> Option<&T> { match self { Slot::Full(x) => Some(x), Slot::Empty => None } }
    #[inline] pub fn get_mut(&mut self) -> Option<&mut T> { match self { Slot::Full(x) => Some(x), Slot::Empty => None } }
    #[inline] pub fn take(&mut self) -> Option<T> { match std::mem::replace(self, Slot::Empty) { Slot::Full(x) => Some(x), Slot::Empty => None } }
}

#[derive(Debug)]
pub struct HashMap<K, V> { slots: Box<[Slot<(K, V)>; CAP]> }
impl<K: Clone, V: Clone> Clone for HashMap<K, V> {
    fn clone(&self) -> Self {
        let mut m = HashMap { slots: Box::new([const { Slot::Empty }; CAP]) };
        let mut i = 0;
        while i < CAP { if let Slot::Full((k, v)) = &self.slots[i] { m.slots[i] = Slot::Full((k.clone(), v.clone())); } i += 1; }
        m
    }
}
impl<K, V> Default for HashMap<K, V> { fn default() -> Self { HashMap { slots: Box::new([const { Slot::Empty }; CAP]) } } }

pub enum Entry<'a, K, V> { Occupied(&'a mut V), Vacant(&'a mut Slot<(K, V)>, K) }
impl<'a, K, V> Entry<'a, K, V> {
    pub fn or_insert_with<F: FnOnce() -> V>(self, f: F) -> &'a mut V {
        match self {
            Entry::Occupied(r) => r,
            Entry::Vacant(slot, k) => { *slot = Slot::Full((k, f())); match slot { Slot::Full(p) => &mut p.1, Slot::Empty => unreachable!() } }
        }
    }
    pub fn or_insert(self, v: V) -> &'a mut V { self.or_insert_with(|| v) }
    pub fn or_default(self) -> &'a mut V where V: Default { self.or_insert_with(V::default) }
    pub fn and_modify<F: FnOnce(&mut V)>(self, f: F) -> Self { match self { Entry::Occupied(r) => { f(r); Entry::Occupied(r) } e => e } }
}

/// Overwrite a slot that is vacant by the container's invariant (index >= len) WITHOUT running drop glue on the old
/// value. A plain assignment makes CBMC explore the element's glue for the old content in every arm of every push
/// (measured: ~500 explored map drops in one join). The only `unsafe` in the model; sound because a vacant slot holds
/// no live value (Slot::Empty / None).
#[inline] fn put<S>(dst: &mut S, v: S) { unsafe { std::ptr::write(dst, v) } }

fn overflow() -> ! {
    #[cfg(kani)] kani::assume(false);
    panic!("vcoll capacity exceeded")
}

impl<K: Eq, V> HashMap<K, V> {
    pub fn new() -> Self { Self::default() }
    pub fn with_capacity(_n: usize) -> Self { Self::default() }
    pub fn reserve(&mut self, _n: usize) {}
    pub fn len(&self) -> usize { let mut n = 0; let mut i = 0; while i < CAP { if self.slots[i].is_full() { n += 1; } i += 1; } n }
    pub fn is_empty(&self) -> bool { let mut i = 0; while i < CAP { if self.slots[i].is_full() { return false; } i += 1; } true }
    pub fn clear(&mut self) { let mut i = 0; while i < CAP { self.slots[i] = Slot::Empty; i += 1; } }
    pub fn get<Q: ?Sized + Eq>(&self, k: &Q) -> Option<&V> where K: Borrow<Q> {
        let mut i = 0;
        while i < CAP { if let Slot::Full((kk, v)) = &self.slots[i] { if kk.borrow() == k { return Some(v); } } i += 1; }
        None
    }
    pub fn get_mut<Q: ?Sized + Eq>(&mut self, k: &Q) -> Option<&mut V> where K: Borrow<Q> {
        let mut i = 0;
        while i < CAP {
            let hit = match &self.slots[i] { Slot::Full((kk, _)) => kk.borrow() == k, Slot::Empty => false };
            if hit { return match &mut self.slots[i] { Slot::Full((_, v)) => Some(v), Slot::Empty => None }; }
            i += 1;
        }
        None
    }
    pub fn contains_key<Q: ?Sized + Eq>(&self, k: &Q) -> bool where K: Borrow<Q> { self.get(k).is_some() }
    pub fn insert(&mut self, k: K, v: V) -> Option<V> {
        let mut i = 0;
        while i < CAP { if let Slot::Full((kk, vv)) = &mut self.slots[i] { if *kk == k { return Some(std::mem::replace(vv, v)); } } i += 1; }
        let mut i = 0;
        while i < CAP { if !self.slots[i].is_full() { self.slots[i] = Slot::Full((k, v)); return None; } i += 1; }
        overflow()
    }
    pub fn remove<Q: ?Sized + Eq>(&mut self, k: &Q) -> Option<V> where K: Borrow<Q> {
        let mut i = 0;
        while i < CAP {
            let hit = match &self.slots[i] { Slot::Full((kk, _)) => kk.borrow() == k, Slot::Empty => false };
            if hit { return match self.slots[i].take() { Some(p) => Some(p.1), None => None }; }
            i += 1;
        }
        None
    }
    pub fn entry(&mut self, k: K) -> Entry<'_, K, V> {
        let mut i = 0;
        while i < CAP {
            let hit = match &self.slots[i] { Slot::Full((kk, _)) => *kk == k, Slot::Empty => false };
            if hit { return match &mut self.slots[i] { Slot::Full((_, v)) => Entry::Occupied(v), Slot::Empty => unreachable!() }; }
            i += 1;
        }
        let mut i = 0;
        while i < CAP {
            if !self.slots[i].is_full() { return Entry::Vacant(&mut self.slots[i], k); }
            i += 1;
        }
        overflow()
    }
    pub fn retain<F: FnMut(&K, &mut V) -> bool>(&mut self, mut f: F) {
        let mut i = 0;
        while i < CAP {
            let keep = match &mut self.slots[i] { Slot::Full((k, v)) => f(k, v), Slot::Empty => true };
            if !keep { self.slots[i] = Slot::Empty; }
            i += 1;
        }
    }
    pub fn iter(&self) -> Iter<'_, K, V> { Iter { m: self, i: 0 } }
    pub fn keys(&self) -> hash_map::Keys<'_, K, V> { hash_map::Keys { it: self.iter() } }
    pub fn values(&self) -> impl Iterator<Item = &V> { self.iter().map(|(_, v)| v) }
    pub fn values_mut(&mut self) -> impl Iterator<Item = &mut V> { self.slots.iter_mut().filter_map(|s| match s { Slot::Full((_, v)) => Some(v), Slot::Empty => None }) }
    pub fn into_keys(self) -> hash_map::IntoKeys<K, V> { hash_map::IntoKeys { it: hash_map::IntoIter { s: *self.slots, i: 0 } } }
}
pub struct Iter<'a, K, V> { m: &'a HashMap<K, V>, i: usize }
impl<'a, K, V> Iterator for Iter<'a, K, V> {
    type Item = (&'a K, &'a V);
    fn next(&mut self) -> Option<(&'a K, &'a V)> {
        while self.i < CAP { let j = self.i; self.i += 1; if let Slot::Full((k, v)) = &self.m.slots[j] { return Some((k, v)); } }
        None
    }
}
impl<'a, K: Eq, V> IntoIterator for &'a HashMap<K, V> { type Item = (&'a K, &'a V); type IntoIter = Iter<'a, K, V>; fn into_iter(self) -> Iter<'a, K, V> { self.iter() } }
impl<K, V> IntoIterator for HashMap<K, V> { type Item = (K, V); type IntoIter = hash_map::IntoIter<K, V>; fn into_iter(self) -> Self::IntoIter { hash_map::IntoIter { s: *self.slots, i: 0 } } }
impl<K: Eq, V> FromIterator<(K, V)> for HashMap<K, V> { fn from_iter<I: IntoIterator<Item = (K, V)>>(it: I) -> Self { let mut m = Self::default(); for (k, v) in it { m.insert(k, v); } m } }
impl<K: Eq, V> Extend<(K, V)> for HashMap<K, V> { fn extend<I: IntoIterator<Item = (K, V)>>(&mut self, it: I) { for (k, v) in it { self.insert(k, v); } } }
impl<K: Eq, V: PartialEq> PartialEq for HashMap<K, V> {
    fn eq(&self, o: &Self) -> bool {
        if self.len() != o.len() { return false; }
        let mut i = 0;
        while i < CAP { if let Slot::Full((k, v)) = &self.slots[i] { match o.get(k) { Some(v2) => { if v != v2 { return false; } } None => return false } } i += 1; }
        true
    }
}
impl<K: Eq, V: Eq> Eq for HashMap<K, V> {}

#[derive(Debug)]
pub struct HashSet<T> { slots: Box<[Slot<T>; CAP]> }
impl<T: Clone> Clone for HashSet<T> {
    fn clone(&self) -> Self {
        let mut m = HashSet { slots: Box::new([const { Slot::Empty }; CAP]) };
        let mut i = 0;
        while i < CAP { if let Slot::Full(x) = &self.slots[i] { m.slots[i] = Slot::Full(x.clone()); } i += 1; }
        m
    }
}
impl<T> Default for HashSet<T> { fn default() -> Self { HashSet { slots: Box::new([const { Slot::Empty }; CAP]) } } }
impl<T: Eq> HashSet<T> {
    pub fn new() -> Self { Self::default() }
    pub fn with_capacity(_n: usize) -> Self { Self::default() }
    pub fn len(&self) -> usize { let mut n = 0; let mut i = 0; while i < CAP { if self.slots[i].is_full() { n += 1; } i += 1; } n }
    pub fn is_empty(&self) -> bool { let mut i = 0; while i < CAP { if self.slots[i].is_full() { return false; } i += 1; } true }
    pub fn clear(&mut self) { let mut i = 0; while i < CAP { self.slots[i] = Slot::Empty; i += 1; } }
    pub fn contains<Q: ?Sized + Eq>(&self, k: &Q) -> bool where T: Borrow<Q> {
        let mut i = 0;
        while i < CAP { if let Slot::Full(x) = &self.slots[i] { if x.borrow() == k { return true; } } i += 1; }
        false
    }
    pub fn insert(&mut self, v: T) -> bool {
        if self.contains(&v) { return false; }
        let mut i = 0;
        while i < CAP { if !self.slots[i].is_full() { self.slots[i] = Slot::Full(v); return true; } i += 1; }
        overflow()
    }
    pub fn remove<Q: ?Sized + Eq>(&mut self, k: &Q) -> bool where T: Borrow<Q> {
        let mut i = 0;
        while i < CAP {
            let hit = match &self.slots[i] { Slot::Full(x) => x.borrow() == k, Slot::Empty => false };
            if hit { self.slots[i] = Slot::Empty; return true; }
            i += 1;
        }
        false
    }
    pub fn retain<F: FnMut(&T) -> bool>(&mut self, mut f: F) {
        let mut i = 0;
        while i < CAP {
            let keep = match &self.slots[i] { Slot::Full(x) => f(x), Slot::Empty => true };
            if !keep { self.slots[i] = Slot::Empty; }
            i += 1;
        }
    }
    pub fn iter(&self) -> SetIter<'_, T> { SetIter { s: self, i: 0 } }
    pub fn is_subset(&self, o: &HashSet<T>) -> bool { let mut i = 0; while i < CAP { if let Slot::Full(x) = &self.slots[i] { if !o.contains(x) { return false; } } i += 1; } true }
    pub fn is_superset(&self, o: &HashSet<T>) -> bool { o.is_subset(self) }
    pub fn drain(&mut self) -> SetIntoIter<T> { let s = std::mem::take(self); s.into_iter() }
}
pub struct SetIter<'a, T> { s: &'a HashSet<T>, i: usize }
impl<'a, T> Iterator for SetIter<'a, T> {
    type Item = &'a T;
    fn next(&mut self) -> Option<&'a T> {
        while self.i < CAP { let j = self.i; self.i += 1; if let Slot::Full(x) = &self.s.slots[j] { return Some(x); } }
        None
    }
}
pub struct SetIntoIter<T> { s: [Slot<T>; CAP], i: usize }
impl<T> Iterator for SetIntoIter<T> {
    type Item = T;
    fn next(&mut self) -> Option<T> {
        while self.i < CAP { let j = self.i; self.i += 1; if let Some(x) = self.s[j].take() { return Some(x); } }
        None
    }
}
impl<T> IntoIterator for HashSet<T> { type Item = T; type IntoIter = SetIntoIter<T>; fn into_iter(self) -> SetIntoIter<T> { SetIntoIter { s: *self.slots, i: 0 } } }
impl<'a, T: Eq> IntoIterator for &'a HashSet<T> { type Item = &'a T; type IntoIter = SetIter<'a, T>; fn into_iter(self) -> SetIter<'a, T> { self.iter() } }
impl<T: Eq> FromIterator<T> for HashSet<T> { fn from_iter<I: IntoIterator<Item = T>>(it: I) -> Self { let mut s = Self::default(); for v in it { s.insert(v); } s } }
impl<T: Eq> Extend<T> for HashSet<T> { fn extend<I: IntoIterator<Item = T>>(&mut self, it: I) { for v in it { self.insert(v); } } }
impl<'a, T: Eq + Copy + 'a> Extend<&'a T> for HashSet<T> { fn extend<I: IntoIterator<Item = &'a T>>(&mut self, it: I) { for v in it { self.insert(*v); } } }
impl<T: Eq> PartialEq for HashSet<T> {
    fn eq(&self, o: &Self) -> bool {
        if self.len() != o.len() { return false; }
        let mut i = 0;
        while i < CAP { if let Slot::Full(x) = &self.slots[i] { if !o.contains(x) { return false; } } i += 1; }
        true
    }
}
impl<T: Eq> Eq for HashSet<T> {}

// serde passthrough (DatasetIndex and QuotedTripleStore derive Serialize/Deserialize); never reached by a harness
impl<K: serde::Serialize + Eq, V: serde::Serialize> serde::Serialize for HashMap<K, V> {
    fn serialize<S: serde::Serializer>(&self, s: S) -> Result<S::Ok, S::Error> { s.collect_seq(self.iter()) }
}
impl<'de, K: serde::Deserialize<'de> + Eq, V: serde::Deserialize<'de>> serde::Deserialize<'de> for HashMap<K, V> {
    fn deserialize<D: serde::Deserializer<'de>>(d: D) -> Result<Self, D::Error> { let v: Vec<(K, V)> = Vec::deserialize(d)?; let mut m = Self::default(); for (k, x) in v { m.insert(k, x); } Ok(m) }
}
impl<T: serde::Serialize + Eq> serde::Serialize for HashSet<T> {
    fn serialize<S: serde::Serializer>(&self, s: S) -> Result<S::Ok, S::Error> { s.collect_seq(self.iter()) }
}
impl<'de, T: serde::Deserialize<'de> + Eq> serde::Deserialize<'de> for HashSet<T> {
    fn deserialize<D: serde::Deserializer<'de>>(d: D) -> Result<Self, D::Error> { let v: Vec<T> = Vec::deserialize(d)?; Ok(v.into_iter().collect()) }
}

pub mod hash_map {
    pub use super::Iter;
    use super::Slot;
    pub struct Keys<'a, K, V> { pub(super) it: super::Iter<'a, K, V> }
    impl<'a, K, V> Iterator for Keys<'a, K, V> { type Item = &'a K; fn next(&mut self) -> Option<&'a K> { match self.it.next() { Some((k, _)) => Some(k), None => None } } }
    pub struct IntoIter<K, V> { pub(super) s: [Slot<(K, V)>; super::CAP], pub(super) i: usize }
    impl<K, V> Iterator for IntoIter<K, V> { type Item = (K, V); fn next(&mut self) -> Option<(K, V)> { while self.i < super::CAP { let j = self.i; self.i += 1; if let Some(p) = self.s[j].take() { return Some(p); } } None } }
    pub struct IntoKeys<K, V> { pub(super) it: IntoIter<K, V> }
    impl<K, V> Iterator for IntoKeys<K, V> { type Item = K; fn next(&mut self) -> Option<K> { match self.it.next() { Some((k, _)) => Some(k), None => None } } }
}

// ---- symbolic construction and structural predicates for inductive-step harnesses (verification only).
// Harnesses reach them through `vk::...`; in a native replay build (real std containers) the driver supplies
// /verif/model/std_helpers.rs with the same signatures, consuming kani::any() values in the same order.
pub mod helpers {
    use super::{HashMap, HashSet, Slot, CAP};
    /// the Vec type of a file rewritten with T1v, for harness code that must also build natively (std_helpers.rs: std Vec)
    pub type VecM<T> = super::VVec<T>;
    /// an arbitrary map: every slot independently empty or holding (fk(), fv()). Distinctness of keys is NOT
    /// implied; harnesses assume `keys_distinct` (std::collections::HashMap guarantees it).
    #[cfg(kani)]
    pub fn any_map<K: Eq, V, FK: FnMut() -> K, FV: FnMut() -> V>(mut fk: FK, mut fv: FV) -> HashMap<K, V> {
        let mut m = HashMap { slots: Box::new([const { Slot::Empty }; CAP]) };
        let mut i = 0;
        while i < CAP { if kani::any() { m.slots[i] = Slot::Full((fk(), fv())); } i += 1; }
        m
    }
    #[cfg(kani)]
    pub fn any_set<T: Eq, F: FnMut() -> T>(mut f: F) -> HashSet<T> {
        let mut m = HashSet { slots: Box::new([const { Slot::Empty }; CAP]) };
        let mut i = 0;
        while i < CAP { if kani::any() { m.slots[i] = Slot::Full(f()); } i += 1; }
        m
    }
    pub fn keys_distinct<K: Eq, V>(m: &HashMap<K, V>) -> bool {
        let mut i = 0;
        while i < CAP {
            let mut j = 0;
            while j < i {
                if let (Slot::Full((a, _)), Slot::Full((b, _))) = (&m.slots[i], &m.slots[j]) { if a == b { return false; } }
                j += 1;
            }
            i += 1;
        }
        true
    }
    /// conjunction of `f` over the values (concrete slot loop)
    pub fn all_values<K: Eq, V, F: FnMut(&V) -> bool>(m: &HashMap<K, V>, mut f: F) -> bool {
        let mut ok = true;
        let mut i = 0;
        while i < CAP { if let Slot::Full((_, v)) = &m.slots[i] { if !f(v) { ok = false; } } i += 1; }
        ok
    }
    pub fn elems_distinct<T: Eq>(s: &HashSet<T>) -> bool {
        let mut i = 0;
        while i < CAP {
            let mut j = 0;
            while j < i {
                if let (Slot::Full(a), Slot::Full(b)) = (&s.slots[i], &s.slots[j]) { if a == b { return false; } }
                j += 1;
            }
            i += 1;
        }
        true
    }
}

// ---- fixed-capacity model of Vec (only where a job asks for it: `"t1_vec": [...]`); same CBMC-friendly rules
pub const VCAP: usize = 8; // @VCAP@ (patched per job by vk)

// The slot array is allocated on the first push (an empty vector owns no heap object: the number of live heap objects
// is what CBMC's pointer reasoning pays for), is never freed, and its drop glue never runs (ManuallyDrop): Drop releases
// exactly the `len` live elements. With derived glue every slot's tag is inspected; where CBMC has lost the tag's value
// (after a push at a symbolic position) the element's own glue (maps of Strings ...) is explored for all VCAP slots.
type VSlots<T> = std::mem::ManuallyDrop<Box<[Option<T>; VCAP]>>;
pub struct VVec<T> { slots: Option<VSlots<T>>, len: usize }
fn vslots<T>() -> VSlots<T> { std::mem::ManuallyDrop::new(Box::new([const { None }; VCAP])) }
impl<T> Drop for VVec<T> {
    fn drop(&mut self) { if let Some(sl) = &mut self.slots { let mut i = 0; while i < VCAP { if i < self.len { drop(sl[i].take()); } i += 1; } } }
}
impl<T> Default for VVec<T> { fn default() -> Self { VVec { slots: None, len: 0 } } }
impl<T: Clone> Clone for VVec<T> {
    fn clone(&self) -> Self {
        let sl = match &self.slots { Some(sl) if self.len > 0 => sl, _ => return VVec { slots: None, len: 0 } };
        let mut v = vslots();
        let mut i = 0;
        while i < VCAP { if i < self.len { if let Some(x) = &sl[i] { put(&mut v[i], Some(x.clone())); } } i += 1; }
        VVec { slots: Some(v), len: self.len }
    }
}
impl<T> VVec<T> {
    pub fn new() -> Self { Self::default() }
    pub fn with_capacity(_n: usize) -> Self { Self::default() }
    pub fn len(&self) -> usize { self.len }
    pub fn is_empty(&self) -> bool { self.len == 0 }
    pub fn push(&mut self, x: T) {
        if self.len >= VCAP { overflow() }
        // write at position `len` through a concrete-index loop (never slots[symbolic]); exactly one arm moves `x`
        // (no Option::take / mem::replace: measured, their copies make the slot tags symbolic for CBMC)
        let k = self.len;
        self.len += 1;
        if self.slots.is_none() { self.slots = Some(vslots()); }
        let sl = match &mut self.slots { Some(sl) => sl, None => unreachable!() };
        let mut i = 0;
        while i < VCAP { if i == k { put(&mut sl[i], Some(x)); return; } i += 1; }
    }
    pub fn get(&self, k: usize) -> Option<&T> {
        let sl = match &self.slots { Some(sl) => sl, None => return None };
        let mut i = 0;
        while i < VCAP { if i == k { return if i < self.len { sl[i].as_ref() } else { None }; } i += 1; }
        None
    }
    pub fn pop(&mut self) -> Option<T> {
        if self.len == 0 { return None; }
        self.len -= 1;
        let k = self.len;
        let sl = match &mut self.slots { Some(sl) => sl, None => return None };
        let mut r = None;
        let mut i = 0;
        while i < VCAP { if i == k { r = sl[i].take(); } i += 1; }
        r
    }
    pub fn first(&self) -> Option<&T> { self.get(0) }
    pub fn last(&self) -> Option<&T> { if self.len == 0 { None } else { self.get(self.len - 1) } }
    pub fn iter(&self) -> VecIter<'_, T> { VecIter { v: self, i: 0 } }
    pub fn clear(&mut self) { if let Some(sl) = &mut self.slots { let mut i = 0; while i < VCAP { if i < self.len { drop(sl[i].take()); } i += 1; } } self.len = 0; }
    pub fn reserve(&mut self, _n: usize) {}
    pub fn contains(&self, x: &T) -> bool where T: PartialEq {
        let sl = match &self.slots { Some(sl) => sl, None => return false };
        let mut i = 0;
        while i < VCAP { if i < self.len { if let Some(y) = &sl[i] { if y == x { return true; } } } i += 1; }
        false
    }
    /// insertion sort over the occupied prefix (concrete indices, symbolic comparisons)
    pub fn sort_unstable(&mut self) where T: Ord {
        let len = self.len;
        let sl = match &mut self.slots { Some(sl) => sl, None => return };
        let mut i = 1;
        while i < VCAP {
            let mut j = i;
            while j > 0 {
                let swap = j < len && match (&sl[j - 1], &sl[j]) { (Some(a), Some(b)) => a > b, _ => false };
                if swap { sl.swap(j - 1, j); }
                j -= 1;
            }
            i += 1;
        }
    }
    pub fn sort(&mut self) where T: Ord { self.sort_unstable() }
    /// removes all but the first of consecutive elements with equal keys
    pub fn dedup_by_key<K: PartialEq, F: FnMut(&mut T) -> K>(&mut self, mut key: F) {
        let old = std::mem::take(self);
        let mut last: Option<K> = None;
        for mut x in old.into_iter() {
            let k = key(&mut x);
            let dup = match &last { Some(l) => *l == k, None => false };
            if !dup { last = Some(k); self.push(x); }
        }
    }
    pub fn dedup(&mut self) where T: PartialEq + Clone { self.dedup_by_key(|x| x.clone()) }
    pub fn get_mut(&mut self, k: usize) -> Option<&mut T> {
        let len = self.len;
        let sl = match &mut self.slots { Some(sl) => sl, None => return None };
        let mut i = 0;
        while i < VCAP { if i == k { return if i < len { sl[i].as_mut() } else { None }; } i += 1; }
        None
    }
    /// keeps the elements for which `f` is true, in order (rebuilds the vector)
    pub fn retain<F: FnMut(&T) -> bool>(&mut self, mut f: F) {
        let old = std::mem::take(self);
        for x in old.into_iter() { if f(&x) { self.push(x); } }
    }
    pub fn resize(&mut self, new_len: usize, value: T) where T: Clone {
        if new_len > VCAP { overflow() }
        while self.len > new_len { drop(self.pop()); }
        let mut i = 0;
        while i < VCAP { if self.len < new_len { self.push(value.clone()); } i += 1; }
    }
    pub fn truncate(&mut self, new_len: usize) { while self.len > new_len { drop(self.pop()); } }
    pub fn append(&mut self, other: &mut Self) { let o = std::mem::take(other); for x in o.into_iter() { self.push(x); } }
}
impl<T> std::ops::IndexMut<usize> for VVec<T> {
    fn index_mut(&mut self, k: usize) -> &mut T { match self.get_mut(k) { Some(x) => x, None => panic!("index out of bounds") } }
}
impl<T: std::hash::Hash> std::hash::Hash for VVec<T> {
    fn hash<H: std::hash::Hasher>(&self, h: &mut H) { self.len.hash(h); for x in self.iter() { x.hash(h); } }
}
impl<T> std::ops::Index<usize> for VVec<T> {
    type Output = T;
    fn index(&self, k: usize) -> &T { match self.get(k) { Some(x) => x, None => panic!("index out of bounds") } }
}
pub struct VecIter<'a, T> { v: &'a VVec<T>, i: usize }
impl<'a, T> Iterator for VecIter<'a, T> {
    type Item = &'a T;
    fn next(&mut self) -> Option<&'a T> {
        // bounded by `len` (an integer that stays concrete whenever the pushes were unconditional), not by the slot tags
        // the cursor advances on EVERY call, also on the None path: CBMC merges the two paths at the return, and a
        // cursor that differs between them becomes symbolic -- every `for` is then unwound to the harness bound (measured)
        let j = self.i; self.i += 1;
        if j >= self.v.len || j >= VCAP { return None; }
        match &self.v.slots { Some(sl) => sl[j].as_ref(), None => None }
    }
}
pub struct VecIntoIter<T> { s: Option<VSlots<T>>, len: usize, i: usize }
impl<T> Drop for VecIntoIter<T> {
    fn drop(&mut self) { if let Some(sl) = &mut self.s { let mut i = 0; while i < VCAP { if i >= self.i && i < self.len { drop(sl[i].take()); } i += 1; } } }
}
impl<T> Iterator for VecIntoIter<T> {
    type Item = T;
    fn next(&mut self) -> Option<T> {
        // the cursor advances on EVERY call, also on the None path: CBMC merges the two paths at the return, and a
        // cursor that differs between them becomes symbolic -- every `for` is then unwound to the harness bound (measured)
        let j = self.i; self.i += 1;
        if j >= self.len || j >= VCAP { return None; }
        match &mut self.s { Some(sl) => sl[j].take(), None => None }
    }
}
impl<T> IntoIterator for VVec<T> { type Item = T; type IntoIter = VecIntoIter<T>; fn into_iter(mut self) -> VecIntoIter<T> { let len = self.len; self.len = 0; VecIntoIter { len, s: self.slots.take(), i: 0 } } }
impl<'a, T> IntoIterator for &'a VVec<T> { type Item = &'a T; type IntoIter = VecIter<'a, T>; fn into_iter(self) -> VecIter<'a, T> { self.iter() } }
impl<T> Extend<T> for VVec<T> { fn extend<I: IntoIterator<Item = T>>(&mut self, it: I) { for x in it { self.push(x); } } }
impl<T> FromIterator<T> for VVec<T> { fn from_iter<I: IntoIterator<Item = T>>(it: I) -> Self { let mut v = Self::default(); for x in it { v.push(x); } v } }
impl<T: PartialEq> PartialEq for VVec<T> {
    fn eq(&self, o: &Self) -> bool {
        if self.len != o.len { return false; }
        let (a, b) = match (&self.slots, &o.slots) { (Some(a), Some(b)) => (a, b), _ => return true }; // equal len, one unallocated: both empty
        let mut i = 0;
        while i < VCAP {
            if i < self.len { match (&a[i], &b[i]) { (Some(x), Some(y)) => { if x != y { return false; } } (None, None) => {} _ => return false } }
            i += 1;
        }
        true
    }
}
impl<T: Eq> Eq for VVec<T> {}
impl<T: Ord> PartialOrd for VVec<T> { fn partial_cmp(&self, o: &Self) -> Option<std::cmp::Ordering> { Some(self.cmp(o)) } }
impl<T: Ord> Ord for VVec<T> {
    /// lexicographic, as std's Vec (one pass over the common prefix, then the lengths)
    fn cmp(&self, o: &Self) -> std::cmp::Ordering {
        use std::cmp::Ordering::*;
        if let (Some(a), Some(b)) = (&self.slots, &o.slots) {
            let mut i = 0;
            while i < VCAP {
                if i < self.len && i < o.len { if let (Some(x), Some(y)) = (&a[i], &b[i]) { let c = x.cmp(y); if c != Equal { return c; } } }
                i += 1;
            }
        }
        self.len.cmp(&o.len)
    }
}
impl<T: std::fmt::Debug> std::fmt::Debug for VVec<T> { fn fmt(&self, f: &mut std::fmt::Formatter<'_>) -> std::fmt::Result { f.write_str("vcoll::Vec") } }
// ---- v1 of the Vec model (Slot-tagged, eagerly boxed), frozen: the C04 `idxv` harnesses were built and measured on it
pub struct VVecV1<T> { slots: Box<[Slot<T>; VCAP]>, len: usize }
impl<T> Default for VVecV1<T> { fn default() -> Self { VVecV1 { slots: Box::new([const { Slot::Empty }; VCAP]), len: 0 } } }
impl<T: Clone> Clone for VVecV1<T> {
    fn clone(&self) -> Self {
        let mut v = VVecV1 { slots: Box::new([const { Slot::Empty }; VCAP]), len: self.len };
        let mut i = 0;
        while i < VCAP { if let Slot::Full(x) = &self.slots[i] { v.slots[i] = Slot::Full(x.clone()); } i += 1; }
        v
    }
}
impl<T> VVecV1<T> {
    pub fn new() -> Self { Self::default() }
    pub fn with_capacity(_n: usize) -> Self { Self::default() }
    pub fn len(&self) -> usize { self.len }
    pub fn is_empty(&self) -> bool { self.len == 0 }
    pub fn push(&mut self, x: T) {
        if self.len >= VCAP { overflow() }
        // write at position `len` through a concrete-index loop (never slots[symbolic])
        let mut x = Some(x);
        let mut i = 0;
        while i < VCAP { if i == self.len { if let Some(y) = x.take() { self.slots[i] = Slot::Full(y); } } i += 1; }
        self.len += 1;
    }
    pub fn get(&self, k: usize) -> Option<&T> {
        let mut i = 0;
        while i < VCAP { if i == k { return self.slots[i].get(); } i += 1; }
        None
    }
    pub fn iter(&self) -> VecIterV1<'_, T> { VecIterV1 { v: self, i: 0 } }
    pub fn clear(&mut self) { let mut i = 0; while i < VCAP { self.slots[i] = Slot::Empty; i += 1; } self.len = 0; }
    pub fn reserve(&mut self, _n: usize) {}
    pub fn contains(&self, x: &T) -> bool where T: PartialEq {
        let mut i = 0;
        while i < VCAP { if let Slot::Full(y) = &self.slots[i] { if y == x { return true; } } i += 1; }
        false
    }
    /// insertion sort over the occupied prefix (concrete indices, symbolic comparisons)
    pub fn sort_unstable(&mut self) where T: Ord {
        let mut i = 1;
        while i < VCAP {
            let mut j = i;
            while j > 0 {
                let swap = match (&self.slots[j - 1], &self.slots[j]) { (Slot::Full(a), Slot::Full(b)) => a > b, _ => false };
                if swap { self.slots.swap(j - 1, j); }
                j -= 1;
            }
            i += 1;
        }
    }
    pub fn sort(&mut self) where T: Ord { self.sort_unstable() }
    /// removes all but the first of consecutive elements with equal keys (rebuilds the vector: concrete-index loops)
    pub fn dedup_by_key<K: PartialEq, F: FnMut(&mut T) -> K>(&mut self, mut key: F) {
        let old = std::mem::take(self);
        let mut last: Option<K> = None;
        for mut x in old.into_iter() {
            let k = key(&mut x);
            let dup = match &last { Some(l) => *l == k, None => false };
            if !dup { last = Some(k); self.push(x); }
        }
    }
    pub fn dedup(&mut self) where T: PartialEq + Clone { self.dedup_by_key(|x| x.clone()) }
}
impl<T> std::ops::Index<usize> for VVecV1<T> {
    type Output = T;
    fn index(&self, k: usize) -> &T { match self.get(k) { Some(x) => x, None => panic!("index out of bounds") } }
}
pub struct VecIterV1<'a, T> { v: &'a VVecV1<T>, i: usize }
impl<'a, T> Iterator for VecIterV1<'a, T> {
    type Item = &'a T;
    fn next(&mut self) -> Option<&'a T> {
        // `i` only ever takes concrete values along a path: the loop body is entered once per unrolling
        while self.i < VCAP { let j = self.i; self.i += 1; if let Slot::Full(x) = &self.v.slots[j] { return Some(x); } else { return None; } }
        None
    }
}
pub struct VecIntoIterV1<T> { s: [Slot<T>; VCAP], i: usize }
impl<T> Iterator for VecIntoIterV1<T> {
    type Item = T;
    fn next(&mut self) -> Option<T> {
        while self.i < VCAP { let j = self.i; self.i += 1; return self.s[j].take(); }
        None
    }
}
impl<T> IntoIterator for VVecV1<T> { type Item = T; type IntoIter = VecIntoIterV1<T>; fn into_iter(self) -> VecIntoIterV1<T> { VecIntoIterV1 { s: *self.slots, i: 0 } } }
impl<'a, T> IntoIterator for &'a VVecV1<T> { type Item = &'a T; type IntoIter = VecIterV1<'a, T>; fn into_iter(self) -> VecIterV1<'a, T> { self.iter() } }
impl<T> Extend<T> for VVecV1<T> { fn extend<I: IntoIterator<Item = T>>(&mut self, it: I) { for x in it { self.push(x); } } }
impl<T> FromIterator<T> for VVecV1<T> { fn from_iter<I: IntoIterator<Item = T>>(it: I) -> Self { let mut v = Self::default(); for x in it { v.push(x); } v } }
impl<T: PartialEq> PartialEq for VVecV1<T> {
    fn eq(&self, o: &Self) -> bool {
        if self.len != o.len { return false; }
        let mut i = 0;
        while i < VCAP {
            let same = match (&self.slots[i], &o.slots[i]) { (Slot::Full(a), Slot::Full(b)) => a == b, (Slot::Empty, Slot::Empty) => true, _ => false };
            if !same { return false; }
            i += 1;
        }
        true
    }
}
impl<T: Eq> Eq for VVecV1<T> {}
impl<T: std::fmt::Debug> std::fmt::Debug for VVecV1<T> { fn fmt(&self, f: &mut std::fmt::Formatter<'_>) -> std::fmt::Result { f.write_str("vcoll::Vec") } }
#[macro_export]
macro_rules! vvec {
    () => { $crate::vcoll::VVec::new() };
    ($($x:expr),+ $(,)?) => {{ let mut v = $crate::vcoll::VVec::new(); $( v.push($x); )+ v }};
}
#[macro_export]
macro_rules! vvec_v1 {
    () => { $crate::vcoll::VVecV1::new() };
    ($($x:expr),+ $(,)?) => {{ let mut v = $crate::vcoll::VVecV1::new(); $( v.push($x); )+ v }};
}
/// `use crate::vcoll::vecmodel::Vec;` shadows the prelude Vec in a rewritten file
pub mod vecmodel { pub use super::VVec as Vec; }
pub mod vecmodel_v1 { pub use super::VVecV1 as Vec; }

// ---- INLINE fixed-capacity Vec (`"t1_vec_inline"`): the slot array is part of the owning struct, no heap object.
// For read-mostly data whose element type is a niche-encoded enum (shared::terms::Term): measured, a `Term` read back
// from ANY heap object (std Vec, Box, the boxed VVec) has a symbolic discriminant for CBMC and every `match` on it
// explores all arms (String-keyed binding maps: out of memory); on a stack object the discriminant stays concrete.
// slots are `Option<T>` here, not `Slot<T>`: the payload of a repr(u8) enum is a union for CBMC and an enum stored
// inside it (Term) loses its discriminant (measured); Option<Term-tuple> uses Term's niche and stays a plain struct.
pub struct VVecI<T> { slots: [Option<T>; VCAP], len: usize }
impl<T> Default for VVecI<T> { fn default() -> Self { VVecI { slots: [const { None }; VCAP], len: 0 } } }
impl<T: Clone> Clone for VVecI<T> {
    fn clone(&self) -> Self {
        let mut v = VVecI { slots: [const { None }; VCAP], len: self.len };
        let mut i = 0;
        while i < VCAP { if let Some(x) = &self.slots[i] { v.slots[i] = Some(x.clone()); } i += 1; }
        v
    }
}
impl<T> VVecI<T> {
    pub fn new() -> Self { Self::default() }
    pub fn with_capacity(_n: usize) -> Self { Self::default() }
    pub fn len(&self) -> usize { self.len }
    pub fn is_empty(&self) -> bool { self.len == 0 }
    pub fn push(&mut self, x: T) {
        if self.len >= VCAP { overflow() }
        let k = self.len;
        self.len += 1;
        // exactly one arm moves `x`; no Option::take / mem::replace (their byte-level copies lose enum discriminants)
        let mut i = 0;
        while i < VCAP { if i == k { put(&mut self.slots[i], Some(x)); return; } i += 1; }
    }
    pub fn get(&self, k: usize) -> Option<&T> {
        let mut i = 0;
        while i < VCAP { if i == k { return self.slots[i].as_ref(); } i += 1; }
        None
    }
    pub fn first(&self) -> Option<&T> { self.slots[0].as_ref() }
    pub fn iter(&self) -> VecIIter<'_, T> { VecIIter { v: self, i: 0 } }
    pub fn contains(&self, x: &T) -> bool where T: PartialEq {
        let mut i = 0;
        while i < VCAP { if let Some(y) = &self.slots[i] { if y == x { return true; } } i += 1; }
        false
    }
}
impl<T> std::ops::Index<usize> for VVecI<T> {
    type Output = T;
    fn index(&self, k: usize) -> &T { match self.get(k) { Some(x) => x, None => panic!("index out of bounds") } }
}
pub struct VecIIter<'a, T> { v: &'a VVecI<T>, i: usize }
impl<'a, T> Iterator for VecIIter<'a, T> {
    type Item = &'a T;
    fn next(&mut self) -> Option<&'a T> {
        while self.i < VCAP { let j = self.i; self.i += 1; if let Some(x) = &self.v.slots[j] { return Some(x); } else { return None; } }
        None
    }
}
impl<'a, T> IntoIterator for &'a VVecI<T> { type Item = &'a T; type IntoIter = VecIIter<'a, T>; fn into_iter(self) -> VecIIter<'a, T> { self.iter() } }
impl<T> FromIterator<T> for VVecI<T> { fn from_iter<I: IntoIterator<Item = T>>(it: I) -> Self { let mut v = Self::default(); for x in it { v.push(x); } v } }
impl<T: std::fmt::Debug> std::fmt::Debug for VVecI<T> { fn fmt(&self, f: &mut std::fmt::Formatter<'_>) -> std::fmt::Result { f.write_str("vcoll::VecI") } }
pub mod vecmodel_inline { pub use super::VVecI as Vec; }

// ---- fixed-capacity model of BTreeSet (only where a job asks for it: `"t1_btree": true`): a sorted, compact slot array
pub const BCAP: usize = 8; // @BCAP@ (patched per job by vk)
pub struct BTreeSetM<T> { slots: Box<[Option<T>; BCAP]>, len: usize }
impl<T> Default for BTreeSetM<T> { fn default() -> Self { BTreeSetM { slots: Box::new([const { None }; BCAP]), len: 0 } } }
impl<T: Clone> Clone for BTreeSetM<T> {
    fn clone(&self) -> Self {
        let mut v = BTreeSetM { slots: Box::new([const { None }; BCAP]), len: self.len };
        let mut i = 0;
        while i < BCAP { if let Some(x) = &self.slots[i] { v.slots[i] = Some(x.clone()); } i += 1; }
        v
    }
}
impl<T: Ord> BTreeSetM<T> {
    pub fn new() -> Self { Self::default() }
    pub fn len(&self) -> usize { self.len }
    pub fn is_empty(&self) -> bool { self.len == 0 }
    pub fn contains<Q: ?Sized + Ord>(&self, k: &Q) -> bool where T: Borrow<Q> {
        let mut i = 0;
        while i < BCAP { if i < self.len { if let Some(x) = &self.slots[i] { if x.borrow().cmp(k) == std::cmp::Ordering::Equal { return true; } } } i += 1; }
        false
    }
    pub fn insert(&mut self, v: T) -> bool {
        if self.contains(&v) { return false; }
        if self.len >= BCAP { overflow() }
        let k = self.len;
        self.len += 1;
        let mut i = 0;
        while i < BCAP { if i == k { put(&mut self.slots[i], Some(v)); break; } i += 1; }
        // one insertion-sort pass from the end restores sortedness
        let mut j = BCAP - 1;
        while j > 0 {
            let swap = j < self.len && match (&self.slots[j - 1], &self.slots[j]) { (Some(a), Some(b)) => a > b, _ => false };
            if swap { self.slots.swap(j - 1, j); }
            j -= 1;
        }
        true
    }
    pub fn iter(&self) -> BTreeIter<'_, T> { BTreeIter { v: self, i: 0 } }
}
pub struct BTreeIter<'a, T> { v: &'a BTreeSetM<T>, i: usize }
impl<'a, T> Iterator for BTreeIter<'a, T> {
    type Item = &'a T;
    fn next(&mut self) -> Option<&'a T> {
        while self.i < BCAP { let j = self.i; self.i += 1; if let Some(x) = &self.v.slots[j] { return Some(x); } else { return None; } }
        None
    }
}
impl<'a, T: Ord> IntoIterator for &'a BTreeSetM<T> { type Item = &'a T; type IntoIter = BTreeIter<'a, T>; fn into_iter(self) -> BTreeIter<'a, T> { self.iter() } }
impl<T: Ord> FromIterator<T> for BTreeSetM<T> { fn from_iter<I: IntoIterator<Item = T>>(it: I) -> Self { let mut s = Self::default(); for v in it { s.insert(v); } s } }
/// `use <model>::btmodel::BTreeSet;`
pub mod btmodel { pub use super::BTreeSetM as BTreeSet; }

// =====================================================================================================================
// COMPACT variant of the map/set model (`"model": "compact"` in a job): occupied slots are exactly 0..len, `len` is an
// integer field. Why: with the hole-y variant above, an iterator's cursor becomes symbolic as soon as slot occupancy
// is symbolic (which slot `next()` returns from depends on the tags), so every `for` over a set is unwound to the
// harness unwind bound instead of CAP+1 (measured on join_remaining: 9 iterations x 3 inner for a 3-slot set). Here
// `next()` advances the cursor by exactly one per call: trip counts are concrete (<= CAP + 1) whatever the content.
// `remove` moves the last entry into the hole (iteration order is deterministic but not insertion order; std's order
// is arbitrary anyway and harnesses only assert order-free facts).
pub mod compact {
    use super::{overflow, put, CAP};
    use std::borrow::Borrow;
    use std::mem::ManuallyDrop;

    // lazily allocated (an empty map owns no heap object, like std's), never freed, glue never runs: see VVec
    type MSlots<T> = ManuallyDrop<Box<[Option<T>; CAP]>>;
    fn mslots<T>() -> MSlots<T> { ManuallyDrop::new(Box::new([const { None }; CAP])) }

    #[derive(Debug)]
    pub struct HashMap<K, V> { pub(super) slots: Option<MSlots<(K, V)>>, pub(super) len: usize }
    impl<K, V> Drop for HashMap<K, V> { fn drop(&mut self) { if let Some(sl) = &mut self.slots { let mut i = 0; while i < CAP { if i < self.len { drop(sl[i].take()); } i += 1; } } } }
    impl<K, V> Default for HashMap<K, V> { fn default() -> Self { HashMap { slots: None, len: 0 } } }
    impl<K: Clone, V: Clone> Clone for HashMap<K, V> {
        fn clone(&self) -> Self {
            let sl = match &self.slots { Some(sl) if self.len > 0 => sl, _ => return HashMap { slots: None, len: 0 } };
            let mut m = mslots();
            let mut i = 0;
            while i < CAP { if i < self.len { if let Some((k, v)) = &sl[i] { put(&mut m[i], Some((k.clone(), v.clone()))); } } i += 1; }
            HashMap { slots: Some(m), len: self.len }
        }
    }
    pub enum Entry<'a, K, V> { Occupied(&'a mut V), Vacant(&'a mut [Option<(K, V)>; CAP], &'a mut usize, K) }
    impl<'a, K, V> Entry<'a, K, V> {
        pub fn or_insert_with<F: FnOnce() -> V>(self, f: F) -> &'a mut V {
            match self {
                Entry::Occupied(r) => r,
                Entry::Vacant(slots, len, k) => {
                    let at = *len;
                    if at >= CAP { overflow() }
                    *len = at + 1;
                    let v = f();
                    let mut i = 0;
                    while i < CAP {
                        if i == at { put(&mut slots[i], Some((k, v))); return match &mut slots[i] { Some(p) => &mut p.1, None => unreachable!() }; }
                        i += 1;
                    }
                    unreachable!()
                }
            }
        }
        pub fn or_insert(self, v: V) -> &'a mut V { self.or_insert_with(|| v) }
        pub fn or_default(self) -> &'a mut V where V: Default { self.or_insert_with(V::default) }
        pub fn and_modify<F: FnOnce(&mut V)>(self, f: F) -> Self { match self { Entry::Occupied(r) => { f(r); Entry::Occupied(r) } e => e } }
    }
    impl<K: Eq, V> HashMap<K, V> {
        pub fn new() -> Self { Self::default() }
        pub fn with_capacity(_n: usize) -> Self { Self::default() }
        pub fn reserve(&mut self, _n: usize) {}
        pub fn len(&self) -> usize { self.len }
        pub fn is_empty(&self) -> bool { self.len == 0 }
        pub fn clear(&mut self) { if let Some(sl) = &mut self.slots { let mut i = 0; while i < CAP { if i < self.len { drop(sl[i].take()); } i += 1; } } self.len = 0; }
        fn find<Q: ?Sized + Eq>(&self, k: &Q) -> Option<usize> where K: Borrow<Q> {
            let sl = match &self.slots { Some(sl) => sl, None => return None };
            let mut i = 0;
            while i < CAP { if i < self.len { if let Some((kk, _)) = &sl[i] { if kk.borrow() == k { return Some(i); } } } i += 1; }
            None
        }
        pub fn get<Q: ?Sized + Eq>(&self, k: &Q) -> Option<&V> where K: Borrow<Q> {
            let sl = match &self.slots { Some(sl) => sl, None => return None };
            let mut i = 0;
            while i < CAP { if i < self.len { if let Some((kk, v)) = &sl[i] { if kk.borrow() == k { return Some(v); } } } i += 1; }
            None
        }
        pub fn get_mut<Q: ?Sized + Eq>(&mut self, k: &Q) -> Option<&mut V> where K: Borrow<Q> {
            let len = self.len;
            let sl = match &mut self.slots { Some(sl) => sl, None => return None };
            let mut i = 0;
            while i < CAP {
                let hit = i < len && match &sl[i] { Some((kk, _)) => kk.borrow() == k, None => false };
                if hit { return match &mut sl[i] { Some((_, v)) => Some(v), None => None }; }
                i += 1;
            }
            None
        }
        pub fn contains_key<Q: ?Sized + Eq>(&self, k: &Q) -> bool where K: Borrow<Q> { self.get(k).is_some() }
        pub fn insert(&mut self, k: K, v: V) -> Option<V> {
            if self.slots.is_none() { self.slots = Some(mslots()); }
            let len = self.len;
            let sl = match &mut self.slots { Some(sl) => sl, None => unreachable!() };
            let mut i = 0;
            while i < CAP { if i < len { if let Some((kk, vv)) = &mut sl[i] { if *kk == k { return Some(std::mem::replace(vv, v)); } } } i += 1; }
            if len >= CAP { overflow() }
            self.len = len + 1;
            let mut i = 0;
            while i < CAP { if i == len { put(&mut sl[i], Some((k, v))); return None; } i += 1; }
            None
        }
        pub fn remove<Q: ?Sized + Eq>(&mut self, k: &Q) -> Option<V> where K: Borrow<Q> {
            let j = match self.find(k) { Some(j) => j, None => return None };
            let last = self.len - 1;
            self.len = last;
            let sl = match &mut self.slots { Some(sl) => sl, None => return None };
            // take the last entry, then (if it was not the hit) swap it into the hole
            let mut moved: Option<(K, V)> = None;
            let mut i = 0;
            while i < CAP { if i == last { moved = std::mem::replace(&mut sl[i], None); } i += 1; }
            if j == last { return match moved { Some(p) => Some(p.1), None => None }; }
            let mut out: Option<(K, V)> = None;
            let mut i = 0;
            while i < CAP { if i == j { out = std::mem::replace(&mut sl[i], moved); break; } i += 1; }
            match out { Some(p) => Some(p.1), None => None }
        }
        pub fn entry(&mut self, k: K) -> Entry<'_, K, V> {
            if self.slots.is_none() { self.slots = Some(mslots()); }
            let HashMap { slots, len } = self;
            let sl = match slots { Some(sl) => sl, None => unreachable!() };
            let mut i = 0;
            while i < CAP {
                let hit = i < *len && match &sl[i] { Some((kk, _)) => *kk == k, None => false };
                if hit { return match &mut sl[i] { Some((_, v)) => Entry::Occupied(v), None => unreachable!() }; }
                i += 1;
            }
            Entry::Vacant(&mut **sl, len, k)
        }
        pub fn iter(&self) -> Iter<'_, K, V> { Iter { m: self, i: 0 } }
        pub fn keys(&self) -> hash_map::Keys<'_, K, V> { hash_map::Keys { it: self.iter() } }
        pub fn values(&self) -> impl Iterator<Item = &V> { self.iter().map(|(_, v)| v) }
        pub fn values_mut(&mut self) -> impl Iterator<Item = &mut V> {
            let len = self.len;
            self.slots.iter_mut().flat_map(|sl| sl.iter_mut()).take(len).filter_map(|s| match s { Some((_, v)) => Some(v), None => None })
        }
        pub fn into_keys(self) -> hash_map::IntoKeys<K, V> { hash_map::IntoKeys { it: self.into_iter() } }
    }
    pub struct Iter<'a, K, V> { m: &'a HashMap<K, V>, i: usize }
    impl<'a, K, V> Iterator for Iter<'a, K, V> {
        type Item = (&'a K, &'a V);
        fn next(&mut self) -> Option<(&'a K, &'a V)> {
            // the cursor advances on EVERY call, also on the None path: CBMC merges the two paths at the return, and a
            // cursor that differs between them becomes symbolic -- every `for` is then unwound to the harness bound (measured)
            let j = self.i; self.i += 1;
            if j >= self.m.len || j >= CAP { return None; }
            match &self.m.slots { Some(sl) => match &sl[j] { Some((k, v)) => Some((k, v)), None => None }, None => None }
        }
    }
    impl<'a, K: Eq, V> IntoIterator for &'a HashMap<K, V> { type Item = (&'a K, &'a V); type IntoIter = Iter<'a, K, V>; fn into_iter(self) -> Iter<'a, K, V> { self.iter() } }
    impl<K, V> IntoIterator for HashMap<K, V> { type Item = (K, V); type IntoIter = hash_map::IntoIter<K, V>; fn into_iter(mut self) -> Self::IntoIter { let len = self.len; self.len = 0; hash_map::IntoIter { len, s: self.slots.take(), i: 0 } } }
    impl<K: Eq, V> FromIterator<(K, V)> for HashMap<K, V> { fn from_iter<I: IntoIterator<Item = (K, V)>>(it: I) -> Self { let mut m = Self::default(); for (k, v) in it { m.insert(k, v); } m } }
    impl<K: Eq, V> Extend<(K, V)> for HashMap<K, V> { fn extend<I: IntoIterator<Item = (K, V)>>(&mut self, it: I) { for (k, v) in it { self.insert(k, v); } } }
    impl<K: Eq, V: PartialEq> PartialEq for HashMap<K, V> {
        fn eq(&self, o: &Self) -> bool {
            if self.len != o.len { return false; }
            let sl = match &self.slots { Some(sl) => sl, None => return true };
            let mut i = 0;
            while i < CAP { if i < self.len { if let Some((k, v)) = &sl[i] { match o.get(k) { Some(v2) => { if v != v2 { return false; } } None => return false } } } i += 1; }
            true
        }
    }
    impl<K: Eq, V: Eq> Eq for HashMap<K, V> {}

    #[derive(Debug)]
    pub struct HashSet<T> { pub(super) slots: Option<MSlots<T>>, pub(super) len: usize }
    impl<T> Drop for HashSet<T> { fn drop(&mut self) { if let Some(sl) = &mut self.slots { let mut i = 0; while i < CAP { if i < self.len { drop(sl[i].take()); } i += 1; } } } }
    impl<T> Default for HashSet<T> { fn default() -> Self { HashSet { slots: None, len: 0 } } }
    impl<T: Clone> Clone for HashSet<T> {
        fn clone(&self) -> Self {
            let sl = match &self.slots { Some(sl) if self.len > 0 => sl, _ => return HashSet { slots: None, len: 0 } };
            let mut m = mslots();
            let mut i = 0;
            while i < CAP { if i < self.len { if let Some(x) = &sl[i] { put(&mut m[i], Some(x.clone())); } } i += 1; }
            HashSet { slots: Some(m), len: self.len }
        }
    }
    impl<T: Eq> HashSet<T> {
        pub fn new() -> Self { Self::default() }
        pub fn with_capacity(_n: usize) -> Self { Self::default() }
        pub fn len(&self) -> usize { self.len }
        pub fn is_empty(&self) -> bool { self.len == 0 }
        pub fn clear(&mut self) { if let Some(sl) = &mut self.slots { let mut i = 0; while i < CAP { if i < self.len { drop(sl[i].take()); } i += 1; } } self.len = 0; }
        pub fn contains<Q: ?Sized + Eq>(&self, k: &Q) -> bool where T: Borrow<Q> {
            let sl = match &self.slots { Some(sl) => sl, None => return false };
            let mut i = 0;
            while i < CAP { if i < self.len { if let Some(x) = &sl[i] { if x.borrow() == k { return true; } } } i += 1; }
            false
        }
        pub fn insert(&mut self, v: T) -> bool {
            if self.contains(&v) { return false; }
            if self.len >= CAP { overflow() }
            let at = self.len;
            self.len += 1;
            if self.slots.is_none() { self.slots = Some(mslots()); }
            let sl = match &mut self.slots { Some(sl) => sl, None => unreachable!() };
            let mut i = 0;
            while i < CAP { if i == at { put(&mut sl[i], Some(v)); return true; } i += 1; }
            true
        }
        pub fn remove<Q: ?Sized + Eq>(&mut self, k: &Q) -> bool where T: Borrow<Q> {
            let len = self.len;
            let sl = match &mut self.slots { Some(sl) => sl, None => return false };
            let mut j = CAP;
            let mut i = 0;
            while i < CAP { if i < len && j == CAP { if let Some(x) = &sl[i] { if x.borrow() == k { j = i; } } } i += 1; }
            if j == CAP { return false; }
            let last = len - 1;
            self.len = last;
            let mut moved: Option<T> = None;
            let mut i = 0;
            while i < CAP { if i == last { moved = std::mem::replace(&mut sl[i], None); } i += 1; }
            if j == last { return true; }
            let mut i = 0;
            while i < CAP { if i == j { sl[i] = moved; break; } i += 1; }
            true
        }
        pub fn iter(&self) -> SetIter<'_, T> { SetIter { s: self, i: 0 } }
        pub fn is_subset(&self, o: &HashSet<T>) -> bool {
            let sl = match &self.slots { Some(sl) => sl, None => return true };
            let mut i = 0;
            while i < CAP { if i < self.len { if let Some(x) = &sl[i] { if !o.contains(x) { return false; } } } i += 1; }
            true
        }
        pub fn is_superset(&self, o: &HashSet<T>) -> bool { o.is_subset(self) }
        pub fn drain(&mut self) -> SetIntoIter<T> { let s = std::mem::take(self); s.into_iter() }
    }
    pub struct SetIter<'a, T> { s: &'a HashSet<T>, i: usize }
    impl<'a, T> Iterator for SetIter<'a, T> {
        type Item = &'a T;
        fn next(&mut self) -> Option<&'a T> {
            // the cursor advances on EVERY call, also on the None path: CBMC merges the two paths at the return, and a
            // cursor that differs between them becomes symbolic -- every `for` is then unwound to the harness bound (measured)
            let j = self.i; self.i += 1;
            if j >= self.s.len || j >= CAP { return None; }
            match &self.s.slots { Some(sl) => sl[j].as_ref(), None => None }
        }
    }
    pub struct SetIntoIter<T> { s: Option<MSlots<T>>, len: usize, i: usize }
    impl<T> Drop for SetIntoIter<T> { fn drop(&mut self) { if let Some(sl) = &mut self.s { let mut i = 0; while i < CAP { if i >= self.i && i < self.len { drop(sl[i].take()); } i += 1; } } } }
    impl<T> Iterator for SetIntoIter<T> {
        type Item = T;
        fn next(&mut self) -> Option<T> {
            // the cursor advances on EVERY call, also on the None path: CBMC merges the two paths at the return, and a
            // cursor that differs between them becomes symbolic -- every `for` is then unwound to the harness bound (measured)
            let j = self.i; self.i += 1;
            if j >= self.len || j >= CAP { return None; }
            match &mut self.s { Some(sl) => sl[j].take(), None => None }
        }
    }
    impl<T> IntoIterator for HashSet<T> { type Item = T; type IntoIter = SetIntoIter<T>; fn into_iter(mut self) -> SetIntoIter<T> { let len = self.len; self.len = 0; SetIntoIter { len, s: self.slots.take(), i: 0 } } }
    impl<'a, T: Eq> IntoIterator for &'a HashSet<T> { type Item = &'a T; type IntoIter = SetIter<'a, T>; fn into_iter(self) -> SetIter<'a, T> { self.iter() } }
    impl<T: Eq> FromIterator<T> for HashSet<T> { fn from_iter<I: IntoIterator<Item = T>>(it: I) -> Self { let mut s = Self::default(); for v in it { s.insert(v); } s } }
    impl<T: Eq> Extend<T> for HashSet<T> { fn extend<I: IntoIterator<Item = T>>(&mut self, it: I) { for v in it { self.insert(v); } } }
    impl<'a, T: Eq + Copy + 'a> Extend<&'a T> for HashSet<T> { fn extend<I: IntoIterator<Item = &'a T>>(&mut self, it: I) { for v in it { self.insert(*v); } } }
    impl<T: Eq> PartialEq for HashSet<T> {
        fn eq(&self, o: &Self) -> bool { self.len == o.len && self.is_subset(o) }
    }
    impl<T: Eq> Eq for HashSet<T> {}

    impl<K: serde::Serialize + Eq, V: serde::Serialize> serde::Serialize for HashMap<K, V> {
        fn serialize<S: serde::Serializer>(&self, s: S) -> Result<S::Ok, S::Error> { s.collect_seq(self.iter()) }
    }
    impl<'de, K: serde::Deserialize<'de> + Eq, V: serde::Deserialize<'de>> serde::Deserialize<'de> for HashMap<K, V> {
        fn deserialize<D: serde::Deserializer<'de>>(d: D) -> Result<Self, D::Error> { let v: Vec<(K, V)> = Vec::deserialize(d)?; let mut m = Self::default(); for (k, x) in v { m.insert(k, x); } Ok(m) }
    }
    impl<T: serde::Serialize + Eq> serde::Serialize for HashSet<T> {
        fn serialize<S: serde::Serializer>(&self, s: S) -> Result<S::Ok, S::Error> { s.collect_seq(self.iter()) }
    }
    impl<'de, T: serde::Deserialize<'de> + Eq> serde::Deserialize<'de> for HashSet<T> {
        fn deserialize<D: serde::Deserializer<'de>>(d: D) -> Result<Self, D::Error> { let v: Vec<T> = Vec::deserialize(d)?; Ok(v.into_iter().collect()) }
    }

    pub mod hash_map {
        pub use super::Iter;
        use super::super::CAP;
        pub struct Keys<'a, K, V> { pub(super) it: super::Iter<'a, K, V> }
        impl<'a, K, V> Iterator for Keys<'a, K, V> { type Item = &'a K; fn next(&mut self) -> Option<&'a K> { match self.it.next() { Some((k, _)) => Some(k), None => None } } }
        pub struct IntoIter<K, V> { pub(super) s: Option<super::MSlots<(K, V)>>, pub(super) len: usize, pub(super) i: usize }
        impl<K, V> Drop for IntoIter<K, V> { fn drop(&mut self) { if let Some(sl) = &mut self.s { let mut i = 0; while i < CAP { if i >= self.i && i < self.len { drop(sl[i].take()); } i += 1; } } } }
        impl<K, V> Iterator for IntoIter<K, V> {
            type Item = (K, V);
            fn next(&mut self) -> Option<(K, V)> {
                // the cursor advances on EVERY call, also on the None path: CBMC merges the two paths at the return, and a
                // cursor that differs between them becomes symbolic -- every `for` is then unwound to the harness bound (measured)
                let j = self.i; self.i += 1;
                if j >= self.len || j >= CAP { return None; }
                match &mut self.s { Some(sl) => sl[j].take(), None => None }
            }
        }
        pub struct IntoKeys<K, V> { pub(super) it: IntoIter<K, V> }
        impl<K, V> Iterator for IntoKeys<K, V> { type Item = K; fn next(&mut self) -> Option<K> { match self.it.next() { Some((k, _)) => Some(k), None => None } } }
    }
}
