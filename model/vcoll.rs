//! Verification model of std::collections::{HashMap, HashSet} (and, where a job asks for it, Vec):
//! fixed-capacity slot arrays, no heap, no MaybeUninit, concrete-index access only.
//!
//! CBMC-specific rules this file follows (each one was the difference between seconds and out-of-memory):
//!  * slots are `#[repr(u8)] enum Slot<T> { Empty, Full(T) }` -- an explicitly tagged union. `Option<(K, V)>` lets
//!    rustc hide the discriminant in a niche of K or V (e.g. an enum key such as GraphId); Kani then reads and
//!    writes the discriminant through byte offsets, CBMC loses field sensitivity and every write becomes a
//!    byte_update of the whole enclosing object (measured: 13x more SAT variables for one entry chain);
//!  * arrays are built with `[const { Slot::Empty }; CAP]`, Clone is a hand-written index loop (array::from_fn /
//!    derived array Clone go through MaybeUninit);
//!  * each map owns its slot array through a Box: one CBMC object per map. With the array stored inline, a write
//!    through a reference into a nested map updates the ROOT object (e.g. the whole DatasetIndex), which destroys
//!    constant propagation for its other fields (measured: 1 / 2 / 3 entry chains on sibling fields = 22k / 282k /
//!    640k SAT variables inline, 63k / 128k / 188k boxed). The box is a fixed-size allocation, never resized;
//!  * every lookup is `while i < CAP` over a CONCRETE index; `&mut` results are re-borrowed with `&mut
//!    self.slots[i]` (concrete `i`) inside the branch that returns, never `slots[symbolic]`, no raw pointers;
//!  * capacity overflow is `kani::assume(false)`: histories needing more keys are outside the claim.
use std::borrow::Borrow;
pub const CAP: usize = 3; // @CAP@ (patched per job by vk)

#[repr(u8)]
#[derive(Debug)]
pub enum Slot<T> { Empty = 0, Full(T) = 1 }
impl<T> Slot<T> {
    #[inline] pub fn is_full(&self) -> bool { matches!(self, Slot::Full(_)) }
    #[inline] pub fn get(&self) -> Option<&T> { match self { Slot::Full(x) => Some(x), Slot::Empty => None } }
    #[inline] pub fn get_mut(&mut self) -> Option<&mut T> { match self { Slot::Full(x) => Some(x), Slot::Empty => None } }
    #[inline] pub fn take(&mut self) -> Option<T> { match std::mem::replace(self, Slot::Empty) { Slot::Full(x) => Some(x), Slot::Empty => None } }
}

#[derive(Debug)]
pub struct HashMap<K, V> { slots: Box<[Slot<(K, V)>; CAP]> }
impl<K: Clone, V: Clone> Clone for HashMap<K, V> {
    fn clone(&self) -> Self {
        let mut m = HashMap { slots: Box::new([const { Slot::Empty }; CAP]) };
        let mut i = 0;
        while i < CAP { if let Slot::Full((k, v)) = &self.slots[i] { m.slots[i] = Slot::Full((k.clone(), v.clone())); } i += 1; }
        m
    }
}
impl<K, V> Default for HashMap<K, V> { fn default() -> Self { HashMap { slots: Box::new([const { Slot::Empty }; CAP]) } } }

pub enum Entry<'a, K, V> { Occupied(&'a mut V), Vacant(&'a mut Slot<(K, V)>, K) }
impl<'a, K, V> Entry<'a, K, V> {
    pub fn or_insert_with<F: FnOnce() -> V>(self, f: F) -> &'a mut V {
        match self {
            Entry::Occupied(r) => r,
            Entry::Vacant(slot, k) => { *slot = Slot::Full((k, f())); match slot { Slot::Full(p) => &mut p.1, Slot::Empty => unreachable!() } }
        }
    }
    pub fn or_insert(self, v: V) -> &'a mut V { self.or_insert_with(|| v) }
    pub fn or_default(self) -> &'a mut V where V: Default { self.or_insert_with(V::default) }
    pub fn and_modify<F: FnOnce(&mut V)>(self, f: F) -> Self { match self { Entry::Occupied(r) => { f(r); Entry::Occupied(r) } e => e } }
}

fn overflow() -> ! {
    #[cfg(kani)] kani::assume(false);
    panic!("vcoll capacity exceeded")
}

impl<K: Eq, V> HashMap<K, V> {
    pub fn new() -> Self { Self::default() }
    pub fn with_capacity(_n: usize) -> Self { Self::default() }
    pub fn reserve(&mut self, _n: usize) {}
    pub fn len(&self) -> usize { let mut n = 0; let mut i = 0; while i < CAP { if self.slots[i].is_full() { n += 1; } i += 1; } n }
    pub fn is_empty(&self) -> bool { let mut i = 0; while i < CAP { if self.slots[i].is_full() { return false; } i += 1; } true }
    pub fn clear(&mut self) { let mut i = 0; while i < CAP { self.slots[i] = Slot::Empty; i += 1; } }
    pub fn get<Q: ?Sized + Eq>(&self, k: &Q) -> Option<&V> where K: Borrow<Q> {
        let mut i = 0;
        while i < CAP { if let Slot::Full((kk, v)) = &self.slots[i] { if kk.borrow() == k { return Some(v); } } i += 1; }
        None
    }
    pub fn get_mut<Q: ?Sized + Eq>(&mut self, k: &Q) -> Option<&mut V> where K: Borrow<Q> {
        let mut i = 0;
        while i < CAP {
            let hit = match &self.slots[i] { Slot::Full((kk, _)) => kk.borrow() == k, Slot::Empty => false };
            if hit { return match &mut self.slots[i] { Slot::Full((_, v)) => Some(v), Slot::Empty => None }; }
            i += 1;
        }
        None
    }
    pub fn contains_key<Q: ?Sized + Eq>(&self, k: &Q) -> bool where K: Borrow<Q> { self.get(k).is_some() }
    pub fn insert(&mut self, k: K, v: V) -> Option<V> {
        let mut i = 0;
        while i < CAP { if let Slot::Full((kk, vv)) = &mut self.slots[i] { if *kk == k { return Some(std::mem::replace(vv, v)); } } i += 1; }
        let mut i = 0;
        while i < CAP { if !self.slots[i].is_full() { self.slots[i] = Slot::Full((k, v)); return None; } i += 1; }
        overflow()
    }
    pub fn remove<Q: ?Sized + Eq>(&mut self, k: &Q) -> Option<V> where K: Borrow<Q> {
        let mut i = 0;
        while i < CAP {
            let hit = match &self.slots[i] { Slot::Full((kk, _)) => kk.borrow() == k, Slot::Empty => false };
            if hit { return match self.slots[i].take() { Some(p) => Some(p.1), None => None }; }
            i += 1;
        }
        None
    }
    pub fn entry(&mut self, k: K) -> Entry<'_, K, V> {
        let mut i = 0;
        while i < CAP {
            let hit = match &self.slots[i] { Slot::Full((kk, _)) => *kk == k, Slot::Empty => false };
            if hit { return match &mut self.slots[i] { Slot::Full((_, v)) => Entry::Occupied(v), Slot::Empty => unreachable!() }; }
            i += 1;
        }
        let mut i = 0;
        while i < CAP {
            if !self.slots[i].is_full() { return Entry::Vacant(&mut self.slots[i], k); }
            i += 1;
        }
        overflow()
    }
    pub fn iter(&self) -> Iter<'_, K, V> { Iter { m: self, i: 0 } }
    pub fn keys(&self) -> hash_map::Keys<'_, K, V> { hash_map::Keys { it: self.iter() } }
    pub fn values(&self) -> impl Iterator<Item = &V> { self.iter().map(|(_, v)| v) }
    pub fn values_mut(&mut self) -> impl Iterator<Item = &mut V> { self.slots.iter_mut().filter_map(|s| match s { Slot::Full((_, v)) => Some(v), Slot::Empty => None }) }
    pub fn into_keys(self) -> hash_map::IntoKeys<K, V> { hash_map::IntoKeys { it: hash_map::IntoIter { s: *self.slots, i: 0 } } }
}
pub struct Iter<'a, K, V> { m: &'a HashMap<K, V>, i: usize }
impl<'a, K, V> Iterator for Iter<'a, K, V> {
    type Item = (&'a K, &'a V);
    fn next(&mut self) -> Option<(&'a K, &'a V)> {
        while self.i < CAP { let j = self.i; self.i += 1; if let Slot::Full((k, v)) = &self.m.slots[j] { return Some((k, v)); } }
        None
    }
}
impl<'a, K: Eq, V> IntoIterator for &'a HashMap<K, V> { type Item = (&'a K, &'a V); type IntoIter = Iter<'a, K, V>; fn into_iter(self) -> Iter<'a, K, V> { self.iter() } }
impl<K, V> IntoIterator for HashMap<K, V> { type Item = (K, V); type IntoIter = hash_map::IntoIter<K, V>; fn into_iter(self) -> Self::IntoIter { hash_map::IntoIter { s: *self.slots, i: 0 } } }
impl<K: Eq, V> FromIterator<(K, V)> for HashMap<K, V> { fn from_iter<I: IntoIterator<Item = (K, V)>>(it: I) -> Self { let mut m = Self::default(); for (k, v) in it { m.insert(k, v); } m } }
impl<K: Eq, V> Extend<(K, V)> for HashMap<K, V> { fn extend<I: IntoIterator<Item = (K, V)>>(&mut self, it: I) { for (k, v) in it { self.insert(k, v); } } }
impl<K: Eq, V: PartialEq> PartialEq for HashMap<K, V> {
    fn eq(&self, o: &Self) -> bool {
        if self.len() != o.len() { return false; }
        let mut i = 0;
        while i < CAP { if let Slot::Full((k, v)) = &self.slots[i] { match o.get(k) { Some(v2) => { if v != v2 { return false; } } None => return false } } i += 1; }
        true
    }
}
impl<K: Eq, V: Eq> Eq for HashMap<K, V> {}

#[derive(Debug)]
pub struct HashSet<T> { slots: Box<[Slot<T>; CAP]> }
impl<T: Clone> Clone for HashSet<T> {
    fn clone(&self) -> Self {
        let mut m = HashSet { slots: Box::new([const { Slot::Empty }; CAP]) };
        let mut i = 0;
        while i < CAP { if let Slot::Full(x) = &self.slots[i] { m.slots[i] = Slot::Full(x.clone()); } i += 1; }
        m
    }
}
impl<T> Default for HashSet<T> { fn default() -> Self { HashSet { slots: Box::new([const { Slot::Empty }; CAP]) } } }
impl<T: Eq> HashSet<T> {
    pub fn new() -> Self { Self::default() }
    pub fn with_capacity(_n: usize) -> Self { Self::default() }
    pub fn len(&self) -> usize { let mut n = 0; let mut i = 0; while i < CAP { if self.slots[i].is_full() { n += 1; } i += 1; } n }
    pub fn is_empty(&self) -> bool { let mut i = 0; while i < CAP { if self.slots[i].is_full() { return false; } i += 1; } true }
    pub fn clear(&mut self) { let mut i = 0; while i < CAP { self.slots[i] = Slot::Empty; i += 1; } }
    pub fn contains<Q: ?Sized + Eq>(&self, k: &Q) -> bool where T: Borrow<Q> {
        let mut i = 0;
        while i < CAP { if let Slot::Full(x) = &self.slots[i] { if x.borrow() == k { return true; } } i += 1; }
        false
    }
    pub fn insert(&mut self, v: T) -> bool {
        if self.contains(&v) { return false; }
        let mut i = 0;
        while i < CAP { if !self.slots[i].is_full() { self.slots[i] = Slot::Full(v); return true; } i += 1; }
        overflow()
    }
    pub fn remove<Q: ?Sized + Eq>(&mut self, k: &Q) -> bool where T: Borrow<Q> {
        let mut i = 0;
        while i < CAP {
            let hit = match &self.slots[i] { Slot::Full(x) => x.borrow() == k, Slot::Empty => false };
            if hit { self.slots[i] = Slot::Empty; return true; }
            i += 1;
        }
        false
    }
    pub fn iter(&self) -> SetIter<'_, T> { SetIter { s: self, i: 0 } }
    pub fn is_subset(&self, o: &HashSet<T>) -> bool { let mut i = 0; while i < CAP { if let Slot::Full(x) = &self.slots[i] { if !o.contains(x) { return false; } } i += 1; } true }
    pub fn is_superset(&self, o: &HashSet<T>) -> bool { o.is_subset(self) }
    pub fn drain(&mut self) -> SetIntoIter<T> { let s = std::mem::take(self); s.into_iter() }
}
pub struct SetIter<'a, T> { s: &'a HashSet<T>, i: usize }
impl<'a, T> Iterator for SetIter<'a, T> {
    type Item = &'a T;
    fn next(&mut self) -> Option<&'a T> {
        while self.i < CAP { let j = self.i; self.i += 1; if let Slot::Full(x) = &self.s.slots[j] { return Some(x); } }
        None
    }
}
pub struct SetIntoIter<T> { s: [Slot<T>; CAP], i: usize }
impl<T> Iterator for SetIntoIter<T> {
    type Item = T;
    fn next(&mut self) -> Option<T> {
        while self.i < CAP { let j = self.i; self.i += 1; if let Some(x) = self.s[j].take() { return Some(x); } }
        None
    }
}
impl<T> IntoIterator for HashSet<T> { type Item = T; type IntoIter = SetIntoIter<T>; fn into_iter(self) -> SetIntoIter<T> { SetIntoIter { s: *self.slots, i: 0 } } }
impl<'a, T: Eq> IntoIterator for &'a HashSet<T> { type Item = &'a T; type IntoIter = SetIter<'a, T>; fn into_iter(self) -> SetIter<'a, T> { self.iter() } }
impl<T: Eq> FromIterator<T> for HashSet<T> { fn from_iter<I: IntoIterator<Item = T>>(it: I) -> Self { let mut s = Self::default(); for v in it { s.insert(v); } s } }
impl<T: Eq> Extend<T> for HashSet<T> { fn extend<I: IntoIterator<Item = T>>(&mut self, it: I) { for v in it { self.insert(v); } } }
impl<'a, T: Eq + Copy + 'a> Extend<&'a T> for HashSet<T> { fn extend<I: IntoIterator<Item = &'a T>>(&mut self, it: I) { for v in it { self.insert(*v); } } }
impl<T: Eq> PartialEq for HashSet<T> {
    fn eq(&self, o: &Self) -> bool {
        if self.len() != o.len() { return false; }
        let mut i = 0;
        while i < CAP { if let Slot::Full(x) = &self.slots[i] { if !o.contains(x) { return false; } } i += 1; }
        true
    }
}
impl<T: Eq> Eq for HashSet<T> {}

// serde passthrough (DatasetIndex and QuotedTripleStore derive Serialize/Deserialize); never reached by a harness
impl<K: serde::Serialize + Eq, V: serde::Serialize> serde::Serialize for HashMap<K, V> {
    fn serialize<S: serde::Serializer>(&self, s: S) -> Result<S::Ok, S::Error> { s.collect_seq(self.iter()) }
}
impl<'de, K: serde::Deserialize<'de> + Eq, V: serde::Deserialize<'de>> serde::Deserialize<'de> for HashMap<K, V> {
    fn deserialize<D: serde::Deserializer<'de>>(d: D) -> Result<Self, D::Error> { let v: Vec<(K, V)> = Vec::deserialize(d)?; let mut m = Self::default(); for (k, x) in v { m.insert(k, x); } Ok(m) }
}
impl<T: serde::Serialize + Eq> serde::Serialize for HashSet<T> {
    fn serialize<S: serde::Serializer>(&self, s: S) -> Result<S::Ok, S::Error> { s.collect_seq(self.iter()) }
}
impl<'de, T: serde::Deserialize<'de> + Eq> serde::Deserialize<'de> for HashSet<T> {
    fn deserialize<D: serde::Deserializer<'de>>(d: D) -> Result<Self, D::Error> { let v: Vec<T> = Vec::deserialize(d)?; Ok(v.into_iter().collect()) }
}

pub mod hash_map {
    pub use super::Iter;
    use super::Slot;
    pub struct Keys<'a, K, V> { pub(super) it: super::Iter<'a, K, V> }
    impl<'a, K, V> Iterator for Keys<'a, K, V> { type Item = &'a K; fn next(&mut self) -> Option<&'a K> { match self.it.next() { Some((k, _)) => Some(k), None => None } } }
    pub struct IntoIter<K, V> { pub(super) s: [Slot<(K, V)>; super::CAP], pub(super) i: usize }
    impl<K, V> Iterator for IntoIter<K, V> { type Item = (K, V); fn next(&mut self) -> Option<(K, V)> { while self.i < super::CAP { let j = self.i; self.i += 1; if let Some(p) = self.s[j].take() { return Some(p); } } None } }
    pub struct IntoKeys<K, V> { pub(super) it: IntoIter<K, V> }
    impl<K, V> Iterator for IntoKeys<K, V> { type Item = K; fn next(&mut self) -> Option<K> { match self.it.next() { Some((k, _)) => Some(k), None => None } } }
}

// ---- symbolic construction and structural predicates for inductive-step harnesses (verification only).
// Harnesses reach them through `vk::...`; in a native replay build (real std containers) the driver supplies
// /verif/model/std_helpers.rs with the same signatures, consuming kani::any() values in the same order.
pub mod helpers {
    use super::{HashMap, HashSet, Slot, CAP};
    /// an arbitrary map: every slot independently empty or holding (fk(), fv()). Distinctness of keys is NOT
    /// implied; harnesses assume `keys_distinct` (std::collections::HashMap guarantees it).
    #[cfg(kani)]
    pub fn any_map<K: Eq, V, FK: FnMut() -> K, FV: FnMut() -> V>(mut fk: FK, mut fv: FV) -> HashMap<K, V> {
        let mut m = HashMap { slots: Box::new([const { Slot::Empty }; CAP]) };
        let mut i = 0;
        while i < CAP { if kani::any() { m.slots[i] = Slot::Full((fk(), fv())); } i += 1; }
        m
    }
    #[cfg(kani)]
    pub fn any_set<T: Eq, F: FnMut() -> T>(mut f: F) -> HashSet<T> {
        let mut m = HashSet { slots: Box::new([const { Slot::Empty }; CAP]) };
        let mut i = 0;
        while i < CAP { if kani::any() { m.slots[i] = Slot::Full(f()); } i += 1; }
        m
    }
    pub fn keys_distinct<K: Eq, V>(m: &HashMap<K, V>) -> bool {
        let mut i = 0;
        while i < CAP {
            let mut j = 0;
            while j < i {
                if let (Slot::Full((a, _)), Slot::Full((b, _))) = (&m.slots[i], &m.slots[j]) { if a == b { return false; } }
                j += 1;
            }
            i += 1;
        }
        true
    }
    /// conjunction of `f` over the values (concrete slot loop)
    pub fn all_values<K: Eq, V, F: FnMut(&V) -> bool>(m: &HashMap<K, V>, mut f: F) -> bool {
        let mut ok = true;
        let mut i = 0;
        while i < CAP { if let Slot::Full((_, v)) = &m.slots[i] { if !f(v) { ok = false; } } i += 1; }
        ok
    }
    pub fn elems_distinct<T: Eq>(s: &HashSet<T>) -> bool {
        let mut i = 0;
        while i < CAP {
            let mut j = 0;
            while j < i {
                if let (Slot::Full(a), Slot::Full(b)) = (&s.slots[i], &s.slots[j]) { if a == b { return false; } }
                j += 1;
            }
            i += 1;
        }
        true
    }
}

// ---- fixed-capacity model of Vec (only where a job asks for it: `"t1_vec": [...]`); same CBMC-friendly rules
pub const VCAP: usize = 8; // @VCAP@ (patched per job by vk)

pub struct VVec<T> { slots: Box<[Slot<T>; VCAP]>, len: usize }
impl<T> Default for VVec<T> { fn default() -> Self { VVec { slots: Box::new([const { Slot::Empty }; VCAP]), len: 0 } } }
impl<T: Clone> Clone for VVec<T> {
    fn clone(&self) -> Self {
        let mut v = VVec { slots: Box::new([const { Slot::Empty }; VCAP]), len: self.len };
        let mut i = 0;
        while i < VCAP { if let Slot::Full(x) = &self.slots[i] { v.slots[i] = Slot::Full(x.clone()); } i += 1; }
        v
    }
}
impl<T> VVec<T> {
    pub fn new() -> Self { Self::default() }
    pub fn with_capacity(_n: usize) -> Self { Self::default() }
    pub fn len(&self) -> usize { self.len }
    pub fn is_empty(&self) -> bool { self.len == 0 }
    pub fn push(&mut self, x: T) {
        if self.len >= VCAP { overflow() }
        // write at position `len` through a concrete-index loop (never slots[symbolic])
        let mut x = Some(x);
        let mut i = 0;
        while i < VCAP { if i == self.len { if let Some(y) = x.take() { self.slots[i] = Slot::Full(y); } } i += 1; }
        self.len += 1;
    }
    pub fn get(&self, k: usize) -> Option<&T> {
        let mut i = 0;
        while i < VCAP { if i == k { return self.slots[i].get(); } i += 1; }
        None
    }
    pub fn iter(&self) -> VecIter<'_, T> { VecIter { v: self, i: 0 } }
    pub fn clear(&mut self) { let mut i = 0; while i < VCAP { self.slots[i] = Slot::Empty; i += 1; } self.len = 0; }
    pub fn reserve(&mut self, _n: usize) {}
    pub fn contains(&self, x: &T) -> bool where T: PartialEq {
        let mut i = 0;
        while i < VCAP { if let Slot::Full(y) = &self.slots[i] { if y == x { return true; } } i += 1; }
        false
    }
    /// insertion sort over the occupied prefix (concrete indices, symbolic comparisons)
    pub fn sort_unstable(&mut self) where T: Ord {
        let mut i = 1;
        while i < VCAP {
            let mut j = i;
            while j > 0 {
                let swap = match (&self.slots[j - 1], &self.slots[j]) { (Slot::Full(a), Slot::Full(b)) => a > b, _ => false };
                if swap { self.slots.swap(j - 1, j); }
                j -= 1;
            }
            i += 1;
        }
    }
    pub fn sort(&mut self) where T: Ord { self.sort_unstable() }
}
impl<T> std::ops::Index<usize> for VVec<T> {
    type Output = T;
    fn index(&self, k: usize) -> &T { match self.get(k) { Some(x) => x, None => panic!("index out of bounds") } }
}
pub struct VecIter<'a, T> { v: &'a VVec<T>, i: usize }
impl<'a, T> Iterator for VecIter<'a, T> {
    type Item = &'a T;
    fn next(&mut self) -> Option<&'a T> {
        // `i` only ever takes concrete values along a path: the loop body is entered once per unrolling
        while self.i < VCAP { let j = self.i; self.i += 1; if let Slot::Full(x) = &self.v.slots[j] { return Some(x); } else { return None; } }
        None
    }
}
pub struct VecIntoIter<T> { s: [Slot<T>; VCAP], i: usize }
impl<T> Iterator for VecIntoIter<T> {
    type Item = T;
    fn next(&mut self) -> Option<T> {
        while self.i < VCAP { let j = self.i; self.i += 1; return self.s[j].take(); }
        None
    }
}
impl<T> IntoIterator for VVec<T> { type Item = T; type IntoIter = VecIntoIter<T>; fn into_iter(self) -> VecIntoIter<T> { VecIntoIter { s: *self.slots, i: 0 } } }
impl<'a, T> IntoIterator for &'a VVec<T> { type Item = &'a T; type IntoIter = VecIter<'a, T>; fn into_iter(self) -> VecIter<'a, T> { self.iter() } }
impl<T> Extend<T> for VVec<T> { fn extend<I: IntoIterator<Item = T>>(&mut self, it: I) { for x in it { self.push(x); } } }
impl<T> FromIterator<T> for VVec<T> { fn from_iter<I: IntoIterator<Item = T>>(it: I) -> Self { let mut v = Self::default(); for x in it { v.push(x); } v } }
impl<T: PartialEq> PartialEq for VVec<T> {
    fn eq(&self, o: &Self) -> bool {
        if self.len != o.len { return false; }
        let mut i = 0;
        while i < VCAP {
            let same = match (&self.slots[i], &o.slots[i]) { (Slot::Full(a), Slot::Full(b)) => a == b, (Slot::Empty, Slot::Empty) => true, _ => false };
            if !same { return false; }
            i += 1;
        }
        true
    }
}
impl<T: Eq> Eq for VVec<T> {}
impl<T: std::fmt::Debug> std::fmt::Debug for VVec<T> { fn fmt(&self, f: &mut std::fmt::Formatter<'_>) -> std::fmt::Result { f.write_str("vcoll::Vec") } }
#[macro_export]
macro_rules! vvec {
    () => { $crate::vcoll::VVec::new() };
    ($($x:expr),+ $(,)?) => {{ let mut v = $crate::vcoll::VVec::new(); $( v.push($x); )+ v }};
}
/// `use crate::vcoll::vecmodel::Vec;` shadows the prelude Vec in a rewritten file
pub mod vecmodel { pub use super::VVec as Vec; }
