//! Verification model of std::collections::{HashMap, HashSet}: fixed-capacity slot array, no heap,
//! no MaybeUninit, concrete-index access only.
use std::borrow::Borrow;
pub const CAP: usize = 3; // @CAP@ (patched per job by vk)

#[derive(Debug)]
pub struct HashMap<K, V> { slots: [Option<(K, V)>; CAP] }
impl<K: Clone, V: Clone> Clone for HashMap<K, V> { fn clone(&self) -> Self { let mut m = HashMap { slots: [const { None }; CAP] }; let mut i = 0; while i < CAP { if let Some((k, v)) = &self.slots[i] { m.slots[i] = Some((k.clone(), v.clone())); } i += 1; } m } }
impl<K, V> Default for HashMap<K, V> { fn default() -> Self { HashMap { slots: [const { None }; CAP] } } }

pub enum Entry<'a, K, V> { Occupied(&'a mut V), Vacant(&'a mut Option<(K, V)>, K) }
impl<'a, K, V> Entry<'a, K, V> {
    pub fn or_insert_with<F: FnOnce() -> V>(self, f: F) -> &'a mut V {
        match self {
            Entry::Occupied(r) => r,
            Entry::Vacant(slot, k) => { *slot = Some((k, f())); match slot { Some(p) => &mut p.1, None => unreachable!() } }
        }
    }
    pub fn or_insert(self, v: V) -> &'a mut V { self.or_insert_with(|| v) }
    pub fn or_default(self) -> &'a mut V where V: Default { self.or_insert_with(V::default) }
    pub fn and_modify<F: FnOnce(&mut V)>(self, f: F) -> Self { match self { Entry::Occupied(r) => { f(r); Entry::Occupied(r) } e => e } }
}

fn overflow() -> ! {
    #[cfg(kani)] kani::assume(false);
    panic!("vcoll capacity exceeded")
}

impl<K: Eq, V> HashMap<K, V> {
    pub fn new() -> Self { Self::default() }
    pub fn len(&self) -> usize { let mut n = 0; let mut i = 0; while i < CAP { if self.slots[i].is_some() { n += 1; } i += 1; } n }
    pub fn is_empty(&self) -> bool { let mut i = 0; while i < CAP { if self.slots[i].is_some() { return false; } i += 1; } true }
    pub fn clear(&mut self) { let mut i = 0; while i < CAP { self.slots[i] = None; i += 1; } }
    pub fn get<Q: ?Sized + Eq>(&self, k: &Q) -> Option<&V> where K: Borrow<Q> {
        let mut i = 0;
        while i < CAP { if let Some((kk, v)) = &self.slots[i] { if kk.borrow() == k { return Some(v); } } i += 1; }
        None
    }
    pub fn get_mut<Q: ?Sized + Eq>(&mut self, k: &Q) -> Option<&mut V> where K: Borrow<Q> {
        let p = self.slots.as_mut_ptr();
        let mut i = 0;
        while i < CAP {
            let slot: &mut Option<(K, V)> = unsafe { &mut *p.add(i) };
            if let Some((kk, v)) = slot { if (*kk).borrow() == k { return Some(v); } }
            i += 1;
        }
        None
    }
    pub fn contains_key<Q: ?Sized + Eq>(&self, k: &Q) -> bool where K: Borrow<Q> { self.get(k).is_some() }
    pub fn insert(&mut self, k: K, v: V) -> Option<V> {
        let mut i = 0;
        while i < CAP { if let Some((kk, vv)) = &mut self.slots[i] { if *kk == k { return Some(std::mem::replace(vv, v)); } } i += 1; }
        let mut i = 0;
        while i < CAP { if self.slots[i].is_none() { self.slots[i] = Some((k, v)); return None; } i += 1; }
        overflow()
    }
    pub fn remove<Q: ?Sized + Eq>(&mut self, k: &Q) -> Option<V> where K: Borrow<Q> {
        let mut i = 0;
        while i < CAP {
            let hit = match &self.slots[i] { Some((kk, _)) => kk.borrow() == k, None => false };
            if hit { return match self.slots[i].take() { Some(p) => Some(p.1), None => None }; }
            i += 1;
        }
        None
    }
    pub fn entry(&mut self, k: K) -> Entry<'_, K, V> {
        let p = self.slots.as_mut_ptr();
        let mut i = 0;
        while i < CAP {
            let slot: &mut Option<(K, V)> = unsafe { &mut *p.add(i) };
            if let Some((kk, v)) = slot { if *kk == k { return Entry::Occupied(v); } }
            i += 1;
        }
        let mut i = 0;
        while i < CAP {
            let slot: &mut Option<(K, V)> = unsafe { &mut *p.add(i) };
            if slot.is_none() { return Entry::Vacant(slot, k); }
            i += 1;
        }
        overflow()
    }
    pub fn iter(&self) -> Iter<'_, K, V> { Iter { m: self, i: 0 } }
    pub fn keys(&self) -> hash_map::Keys<'_, K, V> { hash_map::Keys { it: self.iter() } }
    pub fn values(&self) -> impl Iterator<Item = &V> { self.iter().map(|(_, v)| v) }
}
pub struct Iter<'a, K, V> { m: &'a HashMap<K, V>, i: usize }
impl<'a, K, V> Iterator for Iter<'a, K, V> {
    type Item = (&'a K, &'a V);
    fn next(&mut self) -> Option<(&'a K, &'a V)> {
        while self.i < CAP { let j = self.i; self.i += 1; if let Some((k, v)) = &self.m.slots[j] { return Some((k, v)); } }
        None
    }
}
impl<'a, K: Eq, V> IntoIterator for &'a HashMap<K, V> { type Item = (&'a K, &'a V); type IntoIter = Iter<'a, K, V>; fn into_iter(self) -> Iter<'a, K, V> { self.iter() } }
impl<K: Eq, V: PartialEq> PartialEq for HashMap<K, V> {
    fn eq(&self, o: &Self) -> bool {
        if self.len() != o.len() { return false; }
        let mut i = 0;
        while i < CAP { if let Some((k, v)) = &self.slots[i] { match o.get(k) { Some(v2) => { if v != v2 { return false; } } None => return false } } i += 1; }
        true
    }
}
impl<K: Eq, V: Eq> Eq for HashMap<K, V> {}

#[derive(Debug)]
pub struct HashSet<T> { slots: [Option<T>; CAP] }
impl<T: Clone> Clone for HashSet<T> { fn clone(&self) -> Self { let mut m = HashSet { slots: [const { None }; CAP] }; let mut i = 0; while i < CAP { if let Some(x) = &self.slots[i] { m.slots[i] = Some(x.clone()); } i += 1; } m } }
impl<T> Default for HashSet<T> { fn default() -> Self { HashSet { slots: [const { None }; CAP] } } }
impl<T: Eq> HashSet<T> {
    pub fn new() -> Self { Self::default() }
    pub fn len(&self) -> usize { let mut n = 0; let mut i = 0; while i < CAP { if self.slots[i].is_some() { n += 1; } i += 1; } n }
    pub fn is_empty(&self) -> bool { let mut i = 0; while i < CAP { if self.slots[i].is_some() { return false; } i += 1; } true }
    pub fn clear(&mut self) { let mut i = 0; while i < CAP { self.slots[i] = None; i += 1; } }
    pub fn contains<Q: ?Sized + Eq>(&self, k: &Q) -> bool where T: Borrow<Q> {
        let mut i = 0;
        while i < CAP { if let Some(x) = &self.slots[i] { if x.borrow() == k { return true; } } i += 1; }
        false
    }
    pub fn insert(&mut self, v: T) -> bool {
        if self.contains(&v) { return false; }
        let mut i = 0;
        while i < CAP { if self.slots[i].is_none() { self.slots[i] = Some(v); return true; } i += 1; }
        overflow()
    }
    pub fn remove<Q: ?Sized + Eq>(&mut self, k: &Q) -> bool where T: Borrow<Q> {
        let mut i = 0;
        while i < CAP {
            let hit = match &self.slots[i] { Some(x) => x.borrow() == k, None => false };
            if hit { self.slots[i] = None; return true; }
            i += 1;
        }
        false
    }
    pub fn iter(&self) -> SetIter<'_, T> { SetIter { s: self, i: 0 } }
}
pub struct SetIter<'a, T> { s: &'a HashSet<T>, i: usize }
impl<'a, T> Iterator for SetIter<'a, T> {
    type Item = &'a T;
    fn next(&mut self) -> Option<&'a T> {
        while self.i < CAP { let j = self.i; self.i += 1; if let Some(x) = &self.s.slots[j] { return Some(x); } }
        None
    }
}
pub struct SetIntoIter<T> { s: [Option<T>; CAP], i: usize }
impl<T> Iterator for SetIntoIter<T> {
    type Item = T;
    fn next(&mut self) -> Option<T> {
        while self.i < CAP { let j = self.i; self.i += 1; if let Some(x) = self.s[j].take() { return Some(x); } }
        None
    }
}
impl<T> IntoIterator for HashSet<T> { type Item = T; type IntoIter = SetIntoIter<T>; fn into_iter(self) -> SetIntoIter<T> { SetIntoIter { s: self.slots, i: 0 } } }
impl<'a, T: Eq> IntoIterator for &'a HashSet<T> { type Item = &'a T; type IntoIter = SetIter<'a, T>; fn into_iter(self) -> SetIter<'a, T> { self.iter() } }
impl<T: Eq> FromIterator<T> for HashSet<T> { fn from_iter<I: IntoIterator<Item = T>>(it: I) -> Self { let mut s = Self::default(); for v in it { s.insert(v); } s } }
impl<T: Eq> PartialEq for HashSet<T> {
    fn eq(&self, o: &Self) -> bool {
        if self.len() != o.len() { return false; }
        let mut i = 0;
        while i < CAP { if let Some(x) = &self.slots[i] { if !o.contains(x) { return false; } } i += 1; }
        true
    }
}
impl<T: Eq> Eq for HashSet<T> {}

impl<K: serde::Serialize, V: serde::Serialize> serde::Serialize for HashMap<K, V> {
    fn serialize<S: serde::Serializer>(&self, s: S) -> Result<S::Ok, S::Error> { s.collect_seq(self.slots.iter()) }
}
impl<'de, K: serde::Deserialize<'de> + Eq, V: serde::Deserialize<'de>> serde::Deserialize<'de> for HashMap<K, V> {
    fn deserialize<D: serde::Deserializer<'de>>(d: D) -> Result<Self, D::Error> { let v: Vec<(K, V)> = Vec::deserialize(d)?; let mut m = Self::default(); for (k, x) in v { m.insert(k, x); } Ok(m) }
}
impl<T: serde::Serialize> serde::Serialize for HashSet<T> {
    fn serialize<S: serde::Serializer>(&self, s: S) -> Result<S::Ok, S::Error> { s.collect_seq(self.slots.iter()) }
}
impl<'de, T: serde::Deserialize<'de> + Eq> serde::Deserialize<'de> for HashSet<T> {
    fn deserialize<D: serde::Deserializer<'de>>(d: D) -> Result<Self, D::Error> { let v: Vec<T> = Vec::deserialize(d)?; Ok(v.into_iter().collect()) }
}

pub mod hash_map {
    pub use super::Iter;
    pub struct Keys<'a, K, V> { pub(super) it: super::Iter<'a, K, V> }
    impl<'a, K, V> Iterator for Keys<'a, K, V> { type Item = &'a K; fn next(&mut self) -> Option<&'a K> { match self.it.next() { Some((k, _)) => Some(k), None => None } } }
    pub struct IntoIter<K, V> { pub(super) s: [Option<(K, V)>; super::CAP], pub(super) i: usize }
    impl<K, V> Iterator for IntoIter<K, V> { type Item = (K, V); fn next(&mut self) -> Option<(K, V)> { while self.i < super::CAP { let j = self.i; self.i += 1; if let Some(p) = self.s[j].take() { return Some(p); } } None } }
    pub struct IntoKeys<K, V> { pub(super) it: IntoIter<K, V> }
    impl<K, V> Iterator for IntoKeys<K, V> { type Item = K; fn next(&mut self) -> Option<K> { match self.it.next() { Some((k, _)) => Some(k), None => None } } }
}
impl<K: Eq, V> HashMap<K, V> {
    pub fn into_keys(self) -> hash_map::IntoKeys<K, V> { hash_map::IntoKeys { it: hash_map::IntoIter { s: self.slots, i: 0 } } }
}
impl<K, V> IntoIterator for HashMap<K, V> { type Item = (K, V); type IntoIter = hash_map::IntoIter<K, V>; fn into_iter(self) -> Self::IntoIter { hash_map::IntoIter { s: self.slots, i: 0 } } }
impl<K: Eq, V> FromIterator<(K, V)> for HashMap<K, V> { fn from_iter<I: IntoIterator<Item = (K, V)>>(it: I) -> Self { let mut m = Self::default(); for (k, v) in it { m.insert(k, v); } m } }
impl<T: Eq> HashSet<T> {
    pub fn is_subset(&self, o: &HashSet<T>) -> bool { let mut i = 0; while i < CAP { if let Some(x) = &self.slots[i] { if !o.contains(x) { return false; } } i += 1; } true }
    pub fn is_superset(&self, o: &HashSet<T>) -> bool { o.is_subset(self) }
    pub fn drain(&mut self) -> SetIntoIter<T> { let s = std::mem::take(self); s.into_iter() }
}

impl<T: Eq> Extend<T> for HashSet<T> { fn extend<I: IntoIterator<Item = T>>(&mut self, it: I) { for v in it { self.insert(v); } } }
impl<'a, T: Eq + Copy + 'a> Extend<&'a T> for HashSet<T> { fn extend<I: IntoIterator<Item = &'a T>>(&mut self, it: I) { for v in it { self.insert(*v); } } }
impl<K: Eq, V> Extend<(K, V)> for HashMap<K, V> { fn extend<I: IntoIterator<Item = (K, V)>>(&mut self, it: I) { for (k, v) in it { self.insert(k, v); } } }
pub struct ValuesMut<'a, K, V> { p: *mut Option<(K, V)>, i: usize, _m: std::marker::PhantomData<&'a mut V> }
impl<'a, K: 'a, V: 'a> Iterator for ValuesMut<'a, K, V> {
    type Item = &'a mut V;
    fn next(&mut self) -> Option<&'a mut V> {
        while self.i < CAP { let j = self.i; self.i += 1; let slot: &'a mut Option<(K, V)> = unsafe { &mut *self.p.add(j) }; if let Some((_, v)) = slot { return Some(v); } }
        None
    }
}
impl<K: Eq, V> HashMap<K, V> {
    pub fn values_mut(&mut self) -> ValuesMut<'_, K, V> { ValuesMut { p: self.slots.as_mut_ptr(), i: 0, _m: std::marker::PhantomData } }
    pub fn with_capacity(_n: usize) -> Self { Self::default() }
    pub fn reserve(&mut self, _n: usize) {}
}
