// Native-replay twins of vcoll::helpers over the REAL std containers (no T1). They consume kani::any()
// values in the same order as the model versions, so a concrete playback trace found on the model
// rebuilds the same abstract pre-state with std::collections::{HashMap, HashSet}.
use std::collections::{HashMap, HashSet};
use std::hash::Hash;
pub const CAP: usize = 3; // @CAP@
pub type VecM<T> = Vec<T>;
pub fn any_map<K: Eq + Hash, V, FK: FnMut() -> K, FV: FnMut() -> V>(mut fk: FK, mut fv: FV) -> HashMap<K, V> {
    let mut m = HashMap::new();
    let mut i = 0;
    while i < CAP { if kani::any() { let k = fk(); let v = fv(); m.insert(k, v); } i += 1; }
    m
}
pub fn any_set<T: Eq + Hash, F: FnMut() -> T>(mut f: F) -> HashSet<T> {
    let mut m = HashSet::new();
    let mut i = 0;
    while i < CAP { if kani::any() { m.insert(f()); } i += 1; }
    m
}
pub fn keys_distinct<K: Eq + Hash, V>(_m: &HashMap<K, V>) -> bool { true }
pub fn all_values<K: Eq + Hash, V, F: FnMut(&V) -> bool>(m: &HashMap<K, V>, mut f: F) -> bool { let mut ok = true; for v in m.values() { if !f(v) { ok = false; } } ok }
pub fn elems_distinct<T: Eq + Hash>(_s: &HashSet<T>) -> bool { true }
