# vklib -- implementation of the vk driver (python3 stdlib only). See /verif/DESIGN.md section 2.
import atexit, fcntl, json, os, re, shutil, signal, subprocess, sys, tempfile, threading, time

VERIF = os.path.dirname(os.path.dirname(os.path.abspath(__file__)))
REPO = os.environ.get('VK_REPO', '/repo')
CACHE = os.path.join(VERIF, '.cache')
SCRATCH_BASE = os.environ.get('VK_SCRATCH', '/var/tmp')
BUDGET_FILE = os.path.join(SCRATCH_BASE, 'kverif.budget.json')
MEM_BUDGET_GB = int(os.environ.get('VK_MEM_BUDGET_GB', '52'))
MAX_PAR = int(os.environ.get('VK_MAX_PAR', '10'))

_scratch_dirs = []
_children = set()
_lock = threading.Lock()


def log(*a):
    print(*a, flush=True)


def _cleanup():
    for p in list(_children):
        try:
            os.killpg(p.pid, signal.SIGKILL)
        except Exception:
            pass
    for d in _scratch_dirs:
        shutil.rmtree(d, ignore_errors=True)
    _budget_release_all()


def _on_signal(signum, frame):
    _cleanup()
    os._exit(130)


atexit.register(_cleanup)
signal.signal(signal.SIGTERM, _on_signal)
signal.signal(signal.SIGINT, _on_signal)


def mkscratch(tag):
    os.makedirs(SCRATCH_BASE, exist_ok=True)
    d = tempfile.mkdtemp(prefix='kverif.%s.' % tag, dir=SCRATCH_BASE)
    _scratch_dirs.append(d)
    return d


# ------------------------------------------------------------------ cross-process memory budget
_my_tokens = set()


def _budget_update(fn):
    os.makedirs(SCRATCH_BASE, exist_ok=True)
    with open(BUDGET_FILE, 'a+') as f:
        fcntl.flock(f, fcntl.LOCK_EX)
        f.seek(0)
        txt = f.read()
        try:
            ent = json.loads(txt) if txt.strip() else {}
        except Exception:
            ent = {}
        # drop entries of dead processes
        for k in list(ent):
            pid = int(k.split(':')[0])
            try:
                os.kill(pid, 0)
            except OSError:
                del ent[k]
        r = fn(ent)
        f.seek(0)
        f.truncate()
        f.write(json.dumps(ent))
        return r


def budget_acquire(token, gb):
    key = '%d:%s' % (os.getpid(), token)

    def attempt(ent):
        used = sum(ent.values())
        if used + gb <= MEM_BUDGET_GB or not ent:
            ent[key] = gb
            return True
        return False
    while not _budget_update(attempt):
        time.sleep(2)
    _my_tokens.add(key)
    return key


def budget_release(key):
    def rel(ent):
        ent.pop(key, None)
    _budget_update(rel)
    _my_tokens.discard(key)


def _budget_release_all():
    if not _my_tokens:
        return
    keys = list(_my_tokens)

    def rel(ent):
        for k in keys:
            ent.pop(k, None)
    try:
        _budget_update(rel)
    except Exception:
        pass


# ------------------------------------------------------------------ source transformation
class Inconclusive(Exception):
    pass


def read(p):
    with open(p, encoding='utf-8') as f:
        return f.read()


def write(p, s):
    os.makedirs(os.path.dirname(p), exist_ok=True)
    with open(p, 'w', encoding='utf-8') as f:
        f.write(s)


MODELLED = ('HashMap', 'HashSet')


def t1_rewrite(src, model='crate::vcoll', what='file'):
    """Redirect std::collections::{HashMap,HashSet,hash_map::*} to the container model.
    Only `use` lines and fully qualified paths change; line numbers are preserved."""
    def grp(m):
        names = [n.strip() for n in m.group(2).split(',') if n.strip()]
        mod = [n for n in names if n.split(' ')[0] in MODELLED or n.startswith('hash_map')]
        std = [n for n in names if n not in mod]
        out = []
        if std:
            out.append('%suse std::collections::{%s};' % (m.group(1), ', '.join(std)))
        if mod:
            out.append('%suse %s::{%s};' % (m.group(1), model, ', '.join(mod)))
        return ' '.join(out)
    src = re.sub(r'^(\s*(?:pub\s+)?)use\s+std::collections::\{([^}]*)\};', grp, src, flags=re.M)
    src = re.sub(r'\bstd::collections::(HashMap|HashSet|hash_map)\b', lambda m: '%s::%s' % (model, m.group(1)), src)
    # anything left that names a std hash container is a style this rewrite does not know
    for m in re.finditer(r'^[^/\n]*\b(collections::\{[^}]*\bHash(Map|Set)|std::collections::\*|hashbrown)', src, flags=re.M):
        raise Inconclusive('T1: unrecognised hash-container import in %s: %r' % (what, m.group(0).strip()))
    return src


def t1_vec_rewrite(src, what, inline=False, v1=False):
    """T1v: additionally redirect `Vec`/`vec!` of one file to the fixed-capacity Vec model (line numbers preserved)."""
    m = re.search(r'^use [^\n]*;[ \t]*$', src, flags=re.M)
    if not m:
        raise Inconclusive('T1v: no use line to attach the Vec redirection to in %s' % what)
    src = src[:m.end()] + (' use crate::vcoll::vecmodel_inline::Vec;' if inline else (' use crate::vcoll::vecmodel_v1::Vec;' if v1 else ' use crate::vcoll::vecmodel::Vec;')) + src[m.end():]
    src = re.sub(r'(?<![\w:])vec!\[', 'crate::vvec_v1![' if v1 else 'crate::vvec![', src)
    if re.search(r'\bstd::vec::Vec\b|\balloc::vec::Vec\b', src):
        raise Inconclusive('T1v: fully qualified Vec path in %s' % what)
    return src


def strip_tests_mod(src):
    """Remove a trailing `#[cfg(test)] mod tests { ... }` (keeps harness builds small). Not required for soundness."""
    return src


def module_closure(srcdir, roots):
    seen, todo = [], list(roots)
    while todo:
        m = todo.pop()
        if m in seen:
            continue
        p = os.path.join(srcdir, m + '.rs')
        if not os.path.exists(p):
            raise Inconclusive('module %s.rs not found in %s' % (m, srcdir))
        seen.append(m)
        for d in set(re.findall(r'\bcrate::([a-z_0-9]+)', read(p))):
            if d not in seen and d != 'vcoll':
                todo.append(d)
    return sorted(seen)


def extract_fns(src, names, what):
    out = []
    for name in names:
        m = re.search(r'^[ \t]*((?:pub(?:\([a-z]+\))?\s+)?fn\s+' + re.escape(name) + r'\b)', src, re.M)
        if not m:
            raise Inconclusive('T3: fn %s not found in %s' % (name, what))
        i = src.index('{', m.end())
        depth, j = 0, i
        in_str = None
        while True:
            c = src[j]
            # skip char/str literals and comments well enough for this code base
            if in_str:
                if c == '\\':
                    j += 2
                    continue
                if c == in_str:
                    in_str = None
            elif c == '"':
                in_str = '"'
            elif c == "'" :
                # char literal like '{' or '\'' or lifetime 'a
                mm = re.match(r"'(\\.[^']*|[^'\\])'", src[j:])
                if mm:
                    j += mm.end()
                    continue
            elif c == '/' and src[j + 1] == '/':
                j = src.index('\n', j)
                continue
            elif c == '{':
                depth += 1
            elif c == '}':
                depth -= 1
                if depth == 0:
                    break
            j += 1
        start = m.start(1)
        out.append(src[start:j + 1])
    return '\n\n'.join(out) + '\n'


def workspace_toml(members, release=False):
    top = read(os.path.join(REPO, 'Cargo.toml'))
    m = re.search(r'^\[workspace\.dependencies\]\n(.*?)(?=^\[)', top, re.M | re.S)
    deps = m.group(1) if m else ''
    return ('[workspace]\nresolver = "2"\nmembers = [%s]\n\n[workspace.dependencies]\n%s\n'
            '[profile.dev]\n%s\ndebug = false\nincremental = false\n' %
            (', '.join('"%s"' % x for x in members), deps,
             'opt-level = 3\ndebug-assertions = false\noverflow-checks = false' if release else 'opt-level = 0'))


HX_DEPS = {
    'shared': 'shared = { path = "../shared" }',
    'serde': 'serde = { workspace = true }',
    'nom': 'nom = { workspace = true }',
    'log': 'log = "0.4.27"',
}


def gen_scratch(prop, job, dest, t1=True, extra_tests=None, cap=None, release=False):
    """Materialise the checked program for one job from /repo's working tree. extra_tests: {harness_file: rust test text}."""
    hdir = os.path.join(VERIF, 'harness', prop)
    members = []
    cap = cap or job.get('cap', 3)
    vcoll = read(os.path.join(VERIF, 'model', 'vcoll.rs'))
    vcoll = re.sub(r'pub const CAP: usize = \d+;', 'pub const CAP: usize = %d;' % cap, vcoll, count=1)
    vcoll = re.sub(r'pub const VCAP: usize = \d+;', 'pub const VCAP: usize = %d;' % job.get('vcap', 8), vcoll, count=1)
    vcoll = re.sub(r'pub const BCAP: usize = \d+;', 'pub const BCAP: usize = %d;' % job.get('bcap', 8), vcoll, count=1)
    model_path = 'crate::vcoll::compact' if job.get('model') == 'compact' else 'crate::vcoll'
    extra_tests = extra_tests or {}
    files_used = []

    if t1:
        vkmod = 'mod vk { pub use %s::vcoll::helpers::*; }\n'
    else:
        std_h = read(os.path.join(VERIF, 'model', 'std_helpers.rs'))
        std_h = re.sub(r'pub const CAP: usize = \d+;', 'pub const CAP: usize = %d;' % cap, std_h, count=1)
        vkmod = 'mod vk {\n' + std_h + '}\n'

    def wrap(body, modname, tests, owner='crate'):
        if not t1:
            body = vkmod + body
        elif owner:
            body = (vkmod % owner) + body
        return ('\n#[cfg(kani)]\n#[allow(unused_imports, dead_code, unused_variables, unused_mut)]\nmod %s {\n%s\n%s\n}\n' % (modname, body, tests or ''))

    if job.get('shared_roots') is not None:
        members.append('shared')
        ssrc = os.path.join(REPO, 'shared', 'src')
        mods = module_closure(ssrc, job['shared_roots'])
        t1s = t1 and job.get('t1_shared', True)
        libtxt = '#![allow(dead_code, unused_imports)]\n'
        for m in mods:
            s = read(os.path.join(ssrc, m + '.rs'))
            files_used.append('shared/src/%s.rs' % m)
            if t1s:
                s = t1_rewrite(s, model_path, 'shared/src/%s.rs' % m)
            if t1s and m in job.get('t1_vec', []):
                s = t1_vec_rewrite(s, 'shared/src/%s.rs' % m, v1=(job.get('vec_model') == 'v1'))
            if t1s and m in job.get('t1_vec_inline', []):
                s = t1_vec_rewrite(s, 'shared/src/%s.rs' % m, inline=True)
            for a, b in (job.get('subst_shared', {}).get(m, []) if t1s else []):
                if a not in s:
                    raise Inconclusive('shared/src/%s.rs: expected text %r not found' % (m, a))
                s = s.replace(a, b)
            inj = job.get('inject')
            if inj and inj['into'] == m:
                body = read(os.path.join(hdir, inj['file']))
                s += wrap('use super::*;\n' + body, '__verif', extra_tests.get(inj['file']), 'crate' if t1s else None)
            write(os.path.join(dest, 'shared', 'src', m + '.rs'), s)
            libtxt += 'pub mod %s;\n' % m
        if t1s:
            libtxt += 'pub mod vcoll;\n'
            write(os.path.join(dest, 'shared', 'src', 'vcoll.rs'), vcoll)
        write(os.path.join(dest, 'shared', 'src', 'lib.rs'), libtxt)
        ct = read(os.path.join(REPO, 'shared', 'Cargo.toml'))
        write(os.path.join(dest, 'shared', 'Cargo.toml'), ct)
    hx = job.get('hx')
    if hx:
        members.append('hx')
        lib = '#![allow(dead_code, unused_imports, unused_variables, unused_mut)]\n'
        need_vcoll = False
        under = {}
        for sl in hx.get('slices', []):
            s = read(os.path.join(REPO, sl['from']))
            files_used.append(sl['from'])
            if t1 and sl.get('t1', True):
                s = t1_rewrite(s, model_path, sl['from'])
                need_vcoll = True
            if t1 and sl.get('t1_vec'):
                s = t1_vec_rewrite(s, sl['from'])
            for a, b in (sl.get('subst', []) if t1 else []):
                if a not in s:
                    raise Inconclusive('slice %s: expected text %r not found' % (sl['from'], a))
                s = s.replace(a, b)
            inj = sl.get('inject')
            if inj:
                body = read(os.path.join(hdir, inj))
                s += wrap('use super::*;\n' + body, '__verif', extra_tests.get(inj), 'crate' if (t1 and sl.get('t1', True)) else None)
            if sl.get('under'):
                write(os.path.join(dest, 'hx', 'src', sl['under'], sl['as'] + '.rs'), s)
                under.setdefault(sl['under'], []).append(sl['as'])
            else:
                write(os.path.join(dest, 'hx', 'src', sl['as'] + '.rs'), s)
                lib += 'pub mod %s;\n' % sl['as']
        for u, ms in under.items():
            lib += 'pub mod %s { %s }\n' % (u, ' '.join('pub mod %s;' % m for m in ms))
        if need_vcoll:
            write(os.path.join(dest, 'hx', 'src', 'vcoll.rs'), vcoll)
            lib += 'pub mod vcoll;\n'
        exs = hx.get('extract')
        if exs:
            exs = exs if isinstance(exs, list) else [exs]
            model_crate = 'shared' if (job.get('shared_roots') is not None and job.get('t1_shared', True)) else 'crate'
            txt = ''
            for ex in exs:
                src = read(os.path.join(REPO, ex['from']))
                files_used.append(ex['from'])
                prelude = ex.get('prelude', '')
                if not t1:
                    prelude = ex.get('prelude_native', prelude.replace('shared::vcoll::', 'std::collections::').replace('crate::vcoll::', 'std::collections::'))
                body = extract_fns(src, ex.get('fns', []), ex['from']) if ex.get('fns') else ''
                for name in ex.get('fns_optional', []):
                    # helper functions a later version of the file may (or may not) have: copied when present
                    if re.search(r'^[ \t]*(?:pub(?:\([a-z]+\))?\s+)?fn\s+' + re.escape(name) + r'\b', src, re.M):
                        body += '\n' + extract_fns(src, [name], ex['from'])
                for st in ex.get('stmts', []):
                    # statements / expressions of a function body, copied verbatim into a wrapper (T3s):
                    # {"in_fn", "parts": [{"regex", "group", "optional"}], "wrap"} ; @P<i>@ in wrap = text of part i
                    fbody = extract_fns(src, [st['in_fn']], ex['from'])
                    w = st['wrap']
                    for i, part in enumerate(st['parts']):
                        mm = re.search(part['regex'], fbody)
                        if not mm and not part.get('optional'):
                            raise Inconclusive('T3s: %r not found in fn %s of %s' % (part['regex'], st['in_fn'], ex['from']))
                        w = w.replace('@P%d@' % i, mm.group(part.get('group', 0)) if mm else '')
                    body += '\n' + w + '\n'
                if t1 and ex.get('t1_vec'):
                    body = re.sub(r'(?<![\w:])vec!\[', model_crate + '::vvec![', body)
                for a, b in (ex.get('subst', []) if t1 else []):
                    if a not in body:
                        raise Inconclusive('extract %s: expected text %r not found' % (ex['from'], a))
                    body = body.replace(a, b)
                if ex.get('impl'):
                    body = '%s {\n%s\n}\n' % (ex['impl'], body)
                txt += '// extracted verbatim from %s by vk (T3)\n%s\n%s\n' % (ex['from'], prelude, body)
            write(os.path.join(dest, 'hx', 'src', 'extracted.rs'), txt)
            lib += 'include!("extracted.rs");\n'
        for hf in hx.get('files', []):
            body = read(os.path.join(hdir, hf))
            stem = os.path.splitext(hf)[0]
            lib += wrap('use super::*;\n' + body, 'p_' + stem, extra_tests.get(hf), 'shared' if (job.get('shared_roots') is not None and t1 and job.get('t1_shared', True)) else ('crate' if need_vcoll else None))
        write(os.path.join(dest, 'hx', 'src', 'lib.rs'), lib)
        deps = '\n'.join(HX_DEPS[d] for d in hx.get('deps', []))
        write(os.path.join(dest, 'hx', 'Cargo.toml'),
              '[package]\nname = "hx"\nversion = "0.0.0"\nedition = "2021"\n\n[dependencies]\n%s\n\n'
              '[lints.rust]\nunexpected_cfgs = { level = "allow" }\n' % deps)
    write(os.path.join(dest, 'Cargo.toml'), workspace_toml(members, release))
    shutil.copy(os.path.join(REPO, 'Cargo.lock'), os.path.join(dest, 'Cargo.lock'))
    return files_used


# ------------------------------------------------------------------ running kani
def base_env():
    env = dict(os.environ)
    env['CARGO_NET_OFFLINE'] = 'true'
    env.pop('RUSTUP_TOOLCHAIN', None)
    env.pop('CARGO_TARGET_DIR', None)
    env.pop('RUSTFLAGS', None)
    return env


def run_cmd(cmd, cwd, timeout, mem_gb, logpath):
    """Run under ulimit -v and a wall cap in its own process group; returns (rc, seconds, timed_out)."""
    sh = 'ulimit -v %d; exec %s' % (int(mem_gb * 1024 * 1024), ' '.join(_q(c) for c in cmd))
    t0 = time.time()
    with open(logpath, 'w') as lf:
        p = subprocess.Popen(['bash', '-c', sh], cwd=cwd, stdout=lf, stderr=subprocess.STDOUT,
                             env=base_env(), start_new_session=True)
        with _lock:
            _children.add(p)
        timed_out = False
        try:
            p.wait(timeout=timeout)
        except subprocess.TimeoutExpired:
            timed_out = True
            try:
                os.killpg(p.pid, signal.SIGKILL)
            except Exception:
                pass
            p.wait()
        finally:
            with _lock:
                _children.discard(p)
    return p.returncode, time.time() - t0, timed_out


def _q(s):
    if re.match(r'^[A-Za-z0-9_./:=,@+-]+$', s):
        return s
    return "'" + s.replace("'", "'\\''") + "'"


def seed_target(dest):
    """Start from the pre-built registry dependencies if setup has produced them."""
    src = os.path.join(CACHE, 'target')
    if os.path.isdir(src):
        subprocess.call(['cp', '-a', src, os.path.join(dest, 'target')])


def kani_cmd(job, harness_names, dest, playback=False):
    pkg = job.get('package', 'hx')
    cmd = ['cargo', 'kani', '-p', pkg, '--target-dir', os.path.join(dest, 'target')]
    for h in harness_names:
        cmd += ['--harness', h]
    flags = list(job.get('flags', []))
    if playback:
        flags += ['-Z', 'concrete-playback', '--concrete-playback=print']
        if '--no-assertion-reach-checks' not in flags:
            flags.append('--no-assertion-reach-checks')
    cmd += flags
    return cmd


RE_HARNESS = re.compile(r'^Checking harness (\S+?)\.\.\.', re.M)


def parse_kani_log(txt):
    """Split a cargo-kani log into per-harness results."""
    res = {}
    parts = RE_HARNESS.split(txt)
    # parts = [preamble, name1, body1, name2, body2...]
    for i in range(1, len(parts), 2):
        name, body = parts[i], parts[i + 1]
        r = {'name': name, 'verdict': None, 'checks': [], 'failed': [], 'covers': [], 'stats': {}}
        m = re.search(r'VERIFICATION:- (SUCCESSFUL|FAILED)([^\n]*)', body)
        if m:
            r['verdict'] = m.group(1)
            r['verdict_note'] = m.group(2).strip()
        for cm in re.finditer(r'^Check (\d+): ([^\n]+)\n\s*- Status: (\S+)\n\s*- Description: "(.*?)"\n(?:\s*- Location: ([^\n]*)\n)?', body, re.M | re.S):
            chk = {'id': cm.group(2), 'status': cm.group(3), 'desc': cm.group(4), 'loc': (cm.group(5) or '').strip()}
            r['checks'].append(chk)
            if '.cover.' in chk['id'] or chk['status'] in ('SATISFIED', 'UNSATISFIABLE'):
                r['covers'].append(chk)
            elif chk['status'] not in ('SUCCESS',):
                r['failed'].append(chk)
        st = r['stats']
        m = re.search(r'size of program expression: (\d+) steps', body)
        if m: st['symex_steps'] = int(m.group(1))
        m = re.search(r'Runtime Symex: ([\d.e+-]+)s', body)
        if m: st['symex_s'] = float(m.group(1))
        m = re.search(r'Generated (\d+) VCC\(s\), (\d+) remaining after simplification', body)
        if m: st['vccs'] = int(m.group(1)); st['vccs_remaining'] = int(m.group(2))
        vs = re.findall(r'(\d+) variables, (\d+) clauses', body)
        if vs:
            st['sat_variables'] = max(int(a) for a, _ in vs)
            st['sat_clauses'] = max(int(b) for _, b in vs)
        st['solver_calls'] = len(re.findall(r'Runtime Solver: ', body))
        st['solver_s'] = round(sum(float(x) for x in re.findall(r'Runtime Solver: ([\d.e+-]+)s', body)), 3)
        st['decision_s'] = round(sum(float(x) for x in re.findall(r'Runtime decision procedure: ([\d.e+-]+)s', body)), 3)
        m = re.search(r'Verification Time: ([\d.]+)s', body)
        if m: st['verification_s'] = float(m.group(1))
        m = re.search(r'\*\* (\d+) of (\d+) failed', body)
        if m: st['failed_n'] = int(m.group(1)); st['checks_n'] = int(m.group(2))
        m = re.search(r'\*\* (\d+) of (\d+) cover properties satisfied', body)
        if m: st['covers_sat'] = int(m.group(1)); st['covers_n'] = int(m.group(2))
        r['oom'] = bool(re.search(r'out of memory|Out of memory|std::bad_alloc|Status: ERROR|CBMC failed|memory exhausted', body, re.I))
        # concrete playback text (if requested)
        # Kani prints one playback test per failing check AND per satisfied cover: keep the tests of failing checks only
        pbs = []
        for pm in re.finditer(r'Concrete playback unit test for `[^`]*`:\n```\n(.*?)```', body, re.S):
            t = pm.group(1)
            km = re.search(r'Check for `(\w+)`', t)
            kind = km.group(1) if km else 'unknown'
            # drop Kani's doc-comment header: a multi-line assertion text breaks the `///` comment
            src = t[t.index('#[test]'):] if '#[test]' in t else t
            if kind != 'cover' and src not in pbs:
                pbs.append(src)
        if pbs:
            r['playback'] = pbs[0]
            r['playbacks'] = pbs
        r['functions'] = sorted(set(re.findall(r'in function ([\w:<>&, ]+)', body)))
        res[name] = r
    return res


def classify(r, h):
    """-> (kind, detail) with kind in ok|violation_candidate|inconclusive"""
    if r is None or r['verdict'] is None:
        return 'inconclusive', 'no verdict (timeout, out of memory, crash or build failure)'
    if any(c['status'] == 'ERROR' for c in r['failed']):
        return 'inconclusive', 'CBMC reported Status: ERROR (solver failure, usually the memory cap)'
    unwind = [c for c in r['failed'] if c['status'] == 'FAILURE' and ('unwinding assertion' in c['desc'] or '.unwind.' in c['id'] or '.recursion' in c['id'])]
    if unwind:
        return 'inconclusive', 'unwinding assertion failed: bound too small for the current code (%s)' % unwind[0]['loc']
    allowed = h.get('allowed_failures', [])
    real_failed = [c for c in r['failed'] if c['status'] == 'FAILURE' and not any(a in c['desc'] for a in allowed)]
    only_allowed = r['verdict'] == 'FAILED' and not real_failed and any(c['status'] == 'FAILURE' for c in r['failed'])
    if r['verdict'] == 'FAILED' and not only_allowed:
        if h.get('should_panic') and not real_failed:
            return 'violation_candidate', 'expected panic did not occur'
        if real_failed:
            return 'violation_candidate', real_failed
        if r['oom']:
            return 'inconclusive', 'solver ran out of memory'
        bad = [c for c in r['failed']]
        return 'inconclusive', 'verification failed without a FAILURE check (%s)' % (bad[0]['status'] if bad else 'unknown')
    # SUCCESSFUL
    bad_cov = [c for c in r['covers'] if c['status'] != 'SATISFIED']
    if bad_cov:
        return 'inconclusive', 'vacuous: cover not satisfied: %s (%s)' % (bad_cov[0]['desc'], bad_cov[0]['status'])
    if len(r['covers']) < h.get('min_covers', 1):
        return 'inconclusive', 'vacuity witness missing: %d covers, expected >= %d' % (len(r['covers']), h.get('min_covers', 1))
    return 'ok', None


# ------------------------------------------------------------------ known findings
def load_known():
    p = os.path.join(VERIF, 'known_findings.json')
    if not os.path.exists(p):
        return {'findings': [], 'fixed': []}
    return json.loads(read(p))


def finding_key(harness, chk):
    return '%s::%s' % (harness.split('::')[-1], chk['desc'])


def known_match(prop, harness, failed_checks):
    """all failing checks listed -> list of matching finding entries; else None"""
    kf = [f for f in load_known().get('findings', []) if f['property'] == prop]
    hits = []
    for c in failed_checks:
        k = finding_key(harness, c)
        m = [f for f in kf if f['key'] == k]
        if not m:
            return None
        hits.append(m[0])
    return hits


# ------------------------------------------------------------------ check
def load_plan(prop):
    p = os.path.join(VERIF, 'harness', prop, 'plan.json')
    if not os.path.exists(p):
        raise SystemExit('no plan for %s' % prop)
    return json.loads(read(p))


def select(plan, tier, only, seed):
    jobs = []
    for job in plan['jobs']:
        hs = [h for h in job['harnesses'] if tier in h.get('tiers', ['quick', 'thorough'])]
        if only:
            hs = [h for h in hs if any(o in h['name'] for o in only)]
        if not hs:
            continue
        if job.get('split'):
            for h in hs:
                jobs.append((job, [h]))
        else:
            jobs.append((job, hs))
    # seed only rotates the start order (nothing random decides a verdict)
    if jobs and seed:
        k = seed % len(jobs)
        jobs = jobs[k:] + jobs[:k]
    # expensive first
    jobs.sort(key=lambda jh: -sum(h.get('timeout', 300) for h in jh[1]))
    return jobs


def run_job(prop, job, hs, root, idx, results, tier, keep, sem):
    tag = '%s.%d' % (job['name'], idx)
    dest = os.path.join(root, tag)
    os.makedirs(dest)
    names = [h['name'] for h in hs]
    out = {'job': job['name'], 'harnesses': names, 'status': 'inconclusive', 'detail': None, 'per_harness': {}, 'files': []}
    results.append(out)
    mem = max(h.get('mem_gb', 8) for h in hs)
    if tier == 'thorough':
        mem = max(mem, max(h.get('mem_gb_thorough', 0) for h in hs))
    timeout = sum(h.get('timeout', 300) for h in hs) + 240
    # the checked program is materialised from /repo (and /verif) NOW, before waiting for a memory slot,
    # so that all jobs of one invocation see the same sources
    try:
        out['files'] = gen_scratch(prop, job, dest, t1=True)
    except Inconclusive as e:
        out['detail'] = str(e)
        return
    sem.acquire()
    key = budget_acquire(tag, mem)
    try:
        seed_target(dest)
        logp = os.path.join(dest, 'kani.log')
        cmd = kani_cmd(job, names, dest)
        out['cmd'] = ' '.join(cmd).replace(dest, '<scratch>')
        t0 = time.time()
        rc, secs, to = run_cmd(cmd, dest, timeout, mem, logp)
        out['wall_s'] = round(secs, 1)
        txt = read(logp)
        out['log_tail'] = txt[-1500:]
        stubs = sorted(set(re.findall(r'- Stub: ([^\n]+)', txt)))
        out['stubs'] = stubs
        parsed = parse_kani_log(txt)
        if not parsed and not to:
            m = re.search(r'(error(\[E\d+\])?:[^\n]*\n[^\n]*\n[^\n]*)', txt)
            out['detail'] = 'build/codegen failed: ' + (m.group(1) if m else txt[-400:])
            return
        worst = 'ok'
        for h in hs:
            r = None
            for k, v in parsed.items():
                if k.split('::')[-1] == h['name']:
                    r = v
            kind, detail = classify(r, h)
            if r is None and to:
                detail = 'timeout after %ds (cap)' % timeout
            ph = {'kind': kind, 'detail': detail if not isinstance(detail, list) else [dict(c) for c in detail]}
            if r:
                ph['stats'] = r['stats']
                ph['covers'] = [(c['desc'], c['status']) for c in r['covers']]
                ph['checks_n'] = len(r['checks'])
                ph['functions'] = [f for f in r['functions']]
                ph['full_name'] = r['name']
            out['per_harness'][h['name']] = ph
            if kind == 'violation_candidate':
                worst = 'violation_candidate'
            elif kind == 'inconclusive' and worst == 'ok':
                worst = 'inconclusive'
        out['status'] = worst
        if worst != 'ok':
            # keep the log for diagnosis
            os.makedirs(os.path.join(VERIF, 'evidence', 'logs'), exist_ok=True)
            shutil.copy(logp, os.path.join(VERIF, 'evidence', 'logs', '%s-%s.log' % (prop, tag)))
    finally:
        budget_release(key)
        sem.release()
        if not keep:
            shutil.rmtree(dest, ignore_errors=True)


def playback_extract(prop, job, h, root):
    """Second run of a failed harness with concrete playback on; returns rust test text or None."""
    dest = os.path.join(root, 'pb.' + h['name'])
    os.makedirs(dest)
    mem = min(max(h.get('mem_gb', 8) * 2, 16), 40)
    key = budget_acquire('pb.' + h['name'], mem)
    try:
        gen_scratch(prop, job, dest, t1=True)
        seed_target(dest)
        logp = os.path.join(dest, 'kani.log')
        rc, secs, to = run_cmd(kani_cmd(job, [h['name']], dest, playback=True), dest, h.get('timeout', 300) * 2 + 240, mem, logp)
        parsed = parse_kani_log(read(logp))
        for k, v in parsed.items():
            if k.split('::')[-1] == h['name'] and v.get('playbacks'):
                return v['playbacks']
        return None
    finally:
        budget_release(key)
        shutil.rmtree(dest, ignore_errors=True)


def harness_file_of(job, hname, prop):
    """which harness source file defines fn hname"""
    hdir = os.path.join(VERIF, 'harness', prop)
    cands = []
    if job.get('inject'):
        cands.append(job['inject']['file'])
    hx = job.get('hx') or {}
    cands += hx.get('files', [])
    for sl in hx.get('slices', []):
        if sl.get('inject'):
            cands.append(sl['inject'])
    for c in cands:
        if re.search(r'\bfn\s+%s\b' % re.escape(hname), read(os.path.join(hdir, c))):
            return c
    return cands[0] if cands else None


def native_replay(prop, job, hname, test_src, root, profile_release=False):
    """Run a concrete playback test against the UNTRANSFORMED code (real std containers). True = reproduces (test fails)."""
    dest = os.path.join(root, 'replay.%s.%s' % (hname, 'rel' if profile_release else 'dev'))
    os.makedirs(dest)
    try:
        hf = harness_file_of(job, hname, prop)
        gen_scratch(prop, job, dest, t1=False, extra_tests={hf: test_src}, release=profile_release)
        tm = re.search(r'fn (kani_concrete_playback_\w+)', test_src)
        tname = tm.group(1)
        pkg = job.get('package', 'hx')
        cmd = ['cargo', 'kani', 'playback', '-Z', 'concrete-playback', '-p', pkg]
        cmd += ['--', tname]
        logp = os.path.join(dest, 'replay.log')
        env_cmd = cmd
        rc, secs, to = run_cmd(env_cmd, dest, 900, 16, logp)
        txt = read(logp)
        os.makedirs(os.path.join(VERIF, 'evidence', 'logs'), exist_ok=True)
        write(os.path.join(VERIF, 'evidence', 'logs', '%s-%s.replay-%s.log' % (prop, hname, 'rel' if profile_release else 'dev')), txt[-20000:])
        ran = re.search(r'test result: (\w+)\. (\d+) passed; (\d+) failed', txt)
        if not ran:
            # a panic in a panic=abort build kills the test process: libtest prints no result line
            started = re.search(r'running 1 test', txt)
            crashed = re.search(r'test exited abnormally|panicked at|signal: 6|SIGABRT|process didn.t exit successfully', txt)
            if started and crashed and rc != 0:
                return True, txt[-1200:]
            return None, txt[-1200:]
        failed = int(ran.group(3)) > 0
        passed = int(ran.group(2)) > 0
        if not failed and not passed:
            return None, txt[-1200:]
        return failed, txt[-1200:]
    finally:
        shutil.rmtree(dest, ignore_errors=True)


def write_replay_file(prop, job, hname, test_src, failed_checks, tier):
    d = os.path.join(VERIF, 'evidence', 'replay')
    os.makedirs(d, exist_ok=True)
    p = os.path.join(d, '%s-%s.rs' % (prop, hname))
    hdr = ('// VK-REPLAY property=%s job=%s harness=%s\n// failing checks (solver): %s\n'
           '// re-run natively against /repo (untransformed, real std containers): /verif/vk replay %s\n' %
           (prop, job['name'], hname, json.dumps([(c['desc'], c['loc']) for c in failed_checks]), p))
    write(p, hdr + test_src)
    return p


def cmd_check(prop, tier, only, keep, seed):
    t_start = time.time()
    plan = load_plan(prop)
    jobs = select(plan, tier, only, seed)
    if not jobs:
        raise SystemExit('nothing selected')
    root = mkscratch(prop)
    results = []
    threads = []
    sem = threading.Semaphore(MAX_PAR)

    def worker(job, hs, i):
        if True:
            try:
                run_job(prop, job, hs, root, i, results, tier, keep, sem)
            except Exception as e:  # never let a crash look like success
                results.append({'job': job['name'], 'harnesses': [h['name'] for h in hs], 'status': 'inconclusive',
                                'detail': 'driver error: %r' % (e,), 'per_harness': {}, 'files': []})
    for i, (job, hs) in enumerate(jobs):
        t = threading.Thread(target=worker, args=(job, hs, i))
        t.start()
        threads.append(t)
    for t in threads:
        t.join()

    # ---- triage of candidate violations: replay natively before reporting
    violations, known_lines, inconclusive = [], [], []
    jobmap = {j['name']: j for j in plan['jobs']}
    for out in results:
        job = jobmap[out['job']]
        if out['status'] == 'inconclusive' and not out['per_harness']:
            inconclusive.append('%s: %s' % (out['job'], out['detail']))
        for hname, ph in out['per_harness'].items():
            if ph['kind'] == 'inconclusive':
                inconclusive.append('%s: %s' % (hname, ph['detail']))
            elif ph['kind'] == 'violation_candidate':
                h = [x for x in job['harnesses'] if x['name'] == hname][0]
                failed = ph['detail'] if isinstance(ph['detail'], list) else [{'desc': str(ph['detail']), 'loc': '', 'id': '', 'status': 'FAILURE'}]
                log('[vk] %s: solver reports %d failing check(s); extracting a concrete trace ...' % (hname, len(failed)))
                tests = playback_extract(prop, job, h, root)
                if not tests:
                    ph['replay'] = 'no concrete trace could be produced'
                    inconclusive.append('%s: solver says FAILED (%s) but no concrete trace could be produced for native replay'
                                        % (hname, failed[0]['desc']))
                    continue
                # one playback test per failing check: replay them in turn until one reproduces natively
                runs = max(1, int(h.get('replay_runs', 1)))
                rep_dev = rep_rel = None
                tail_dev = tail_rel = ''
                test_src = tests[0]
                for cand in tests[:6]:
                    for _ in range(runs):
                        rep_dev, tail_dev = native_replay(prop, job, hname, cand, root, False)
                        if rep_dev:
                            break
                    for _ in range(runs):
                        rep_rel, tail_rel = native_replay(prop, job, hname, cand, root, True)
                        if rep_rel:
                            break
                    test_src = cand
                    if rep_dev or rep_rel:
                        break
                ph['replay'] = {'dev_reproduces': rep_dev, 'release_reproduces': rep_rel, 'candidates': len(tests)}
                if rep_dev is None and rep_rel is None:
                    write(os.path.join(VERIF, 'evidence', 'logs', '%s-%s.nonrepro.rs' % (prop, hname)), test_src)
                    inconclusive.append('%s: solver says FAILED (%s) but the native replay could not be built or run (see evidence/logs)'
                                        % (hname, failed[0]['desc']))
                    continue
                if rep_dev or rep_rel:
                    path = write_replay_file(prop, job, hname, test_src, failed, tier)
                    ph['replay']['file'] = path
                    hits = known_match(prop, hname, failed)
                    if hits is not None:
                        for f in hits:
                            known_lines.append('KNOWN-FINDING: property=%s %s' % (prop, f['what']))
                    else:
                        violations.append((hname, failed, path))
                else:
                    ph['replay']['log_tail'] = (tail_dev or '')[-600:]
                    write(os.path.join(VERIF, 'evidence', 'logs', '%s-%s.nonrepro.rs' % (prop, hname)), test_src)
                    inconclusive.append('%s: counterexample does not reproduce natively (artefact of the container model or a stub): %s'
                                        % (hname, failed[0]['desc']))

    wall = time.time() - t_start
    ev = build_evidence(prop, plan, tier, seed, results, violations, known_lines, inconclusive, wall)
    os.makedirs(os.path.join(VERIF, 'evidence'), exist_ok=True)
    if only or tier not in ('quick', 'thorough'):
        # a partial or experimental run is not a record of the registered check: keep it apart (gitignored)
        write(os.path.join(VERIF, 'evidence', 'logs', '%s.partial-%s.json' % (prop, tier)), json.dumps(ev, indent=1))
    else:
        write(os.path.join(VERIF, 'evidence', prop + '.json'), json.dumps(ev, indent=1))
    if keep:
        _scratch_dirs.remove(root)
        log('[vk] scratch kept at ' + root)
    else:
        shutil.rmtree(root, ignore_errors=True)

    # ---- report
    for out in results:
        for hname, ph in out['per_harness'].items():
            st = ph.get('stats', {})
            log('[vk] %-44s %-20s checks=%-4s vars=%-9s solver=%ss total=%ss' % (
                hname, ph['kind'], ph.get('checks_n', '-'), st.get('sat_variables', '-'), st.get('solver_s', '-'), st.get('verification_s', '-')))
    for l in sorted(set(known_lines)):
        log(l)
    if violations:
        for hname, failed, path in violations:
            log('[vk] violated in %s: %s' % (hname, '; '.join('%s @ %s' % (c['desc'], c['loc']) for c in failed[:4])))
            log('VIOLATION property=%s replay=%s' % (prop, path))
        return 1
    if inconclusive:
        for l in inconclusive:
            log('[vk] INCONCLUSIVE %s' % l)
        return 2
    log('[vk] %s %s: held within the stated bounds (%d harnesses, %.0fs)' % (prop, tier, sum(len(o['per_harness']) for o in results), wall))
    return 0


def build_evidence(prop, plan, tier, seed, results, violations, known_lines, inconclusive, wall):
    samples, fn_encoded, stubs = [], set(), set()
    obligations = discharged = solver_calls = 0
    nontrivial = 0
    solver_s = symex_s = 0.0
    jobmap = {j['name']: j for j in plan['jobs']}
    for out in results:
        job = jobmap[out['job']]
        for s in out.get('stubs', []):
            stubs.add(s)
        for hname, ph in out['per_harness'].items():
            h = [x for x in job['harnesses'] if x['name'] == hname][0]
            st = ph.get('stats', {})
            n = ph.get('checks_n', 0)
            obligations += n
            nf = len(ph['detail']) if isinstance(ph['detail'], list) else 0
            if ph['kind'] == 'ok':
                discharged += n
            elif ph['kind'] == 'violation_candidate':
                discharged += n - nf
            solver_calls += st.get('solver_calls', 0)
            solver_s += st.get('solver_s', 0.0)
            symex_s += st.get('symex_s', 0.0)
            cov_ok = [c for c in ph.get('covers', []) if c[1] == 'SATISFIED']
            if ph['kind'] == 'ok' and cov_ok:
                nontrivial += 1
            for f in ph.get('functions', []):
                fn_encoded.add(f)
            samples.append({
                'harness': hname, 'job': out['job'], 'result': ph['kind'],
                'what': h.get('what', ''), 'bound': h.get('bound', ''),
                'cap': job.get('cap'), 'checks': n,
                'sat_variables': st.get('sat_variables'), 'sat_clauses': st.get('sat_clauses'),
                'symex_steps': st.get('symex_steps'), 'symex_s': st.get('symex_s'),
                'solver_s': st.get('solver_s'), 'verification_s': st.get('verification_s'),
                'reachability_witnesses': ph.get('covers', []),
                'failing': ph['detail'] if ph['kind'] != 'ok' else None,
                'replay': ph.get('replay'),
            })
    repo_fns = sorted(f.strip() for f in fn_encoded if re.match(r'^(shared|datalog|r2s|s2r|hx|sparql_|parser|dataset_index|[a-z_0-9]+::[A-Za-z])', f.strip()) and not f.startswith(('kani::', 'core::', 'std::', 'alloc::')) and 'vcoll' not in f and '__verif' not in f and not f.startswith('p_'))
    ev = {
        'property_id': prop, 'tier': tier, 'seed': seed, 'level': 'model_checking',
        'coverage': {
            'evaluations': max(solver_calls, obligations),
            'distinct_nontrivial': nontrivial,
            'rule': ('one case = one proof harness (all assignments of its symbolic inputs within the stated bound, decided by CBMC/CaDiCaL); '
                     'evaluations = verification conditions posed to the solver in this run; a harness counts as non-trivial only if the solver '
                     'confirmed its kani::cover! reachability witnesses (the assertions are reached under the assumptions) and every check was discharged'),
            'samples': samples,
            'obligations': obligations, 'discharged': discharged,
            'solver_queries': solver_calls, 'solver_s': round(solver_s, 2), 'symex_s': round(symex_s, 2),
            'functions_encoded': repo_fns,
            'declared_targets': plan.get('encodes', []),
            'source_files': sorted(set(f for o in results for f in o.get('files', []))),
            'stubs_applied': sorted(stubs),
            'checker_cmd': 'cargo kani (Kani 0.68.0 / CBMC 6.11.0 / CaDiCaL) per harness; see samples[].',
            'trusted_base': ['rustc MIR', 'kani-compiler codegen', 'CBMC 6.11 symex + bit-blasting', 'CaDiCaL',
                             '/verif/model/vcoll.rs (HashMap/HashSet model)', 'T1/T2/T3 source transformations of vk', 'stubs listed in assumptions'],
            'exhaustive': False,
            'inconclusive': inconclusive,
            'known_findings_reported': sorted(set(known_lines)),
            'outside_the_claim': plan.get('outside', []),
        },
        'assumptions': plan.get('assumptions', []),
        'wall_s': round(wall, 1),
        'violations': len(violations),
    }
    return ev


# ------------------------------------------------------------------ replay command
def cmd_replay(path):
    txt = read(path)
    m = re.search(r'VK-REPLAY property=(\S+) job=(\S+) harness=(\S+)', txt)
    if not m:
        raise SystemExit('not a vk replay file')
    prop, jobname, hname = m.groups()
    plan = load_plan(prop)
    job = [j for j in plan['jobs'] if j['name'] == jobname][0]
    test_src = txt[txt.index('#[test]'):]
    root = mkscratch('replay')
    any_rep = False
    for rel in (False, True):
        rep, tail = native_replay(prop, job, hname, test_src, root, rel)
        log('[vk] replay %s (%s profile): %s' % (hname, 'release' if rel else 'dev',
            {True: 'REPRODUCES (assertion/panic fires on the real code)', False: 'does not reproduce', None: 'could not run'}[rep]))
        if rep is None:
            log(tail)
        any_rep = any_rep or bool(rep)
    shutil.rmtree(root, ignore_errors=True)
    return 1 if any_rep else 0


# ------------------------------------------------------------------ setup
def cmd_setup():
    os.makedirs(CACHE, exist_ok=True)
    t0 = time.time()
    # pre-build registry dependencies under Kani into the cache target dir
    root = mkscratch('setup')
    job = {'name': 'setup', 'shared_roots': ['quoted_triple_store'], 't1_shared': True, 'cap': 2, 'package': 'hx',
           'hx': {'files': [], 'deps': ['shared', 'serde', 'nom', 'log']}, 'harnesses': []}
    dest = os.path.join(root, 'w')
    os.makedirs(dest)
    # tiny harness so that kani has something to codegen
    hdir = os.path.join(VERIF, 'harness', '_setup')
    os.makedirs(hdir, exist_ok=True)
    write(os.path.join(hdir, 'probe.rs'), '#[kani::proof]\nfn setup_probe() { let x: u8 = kani::any(); assert!(x as u16 <= 255); kani::cover!(x == 3); }\n')
    job['hx']['files'] = ['probe.rs']
    gen_scratch('_setup', job, dest, t1=True)
    tgt = os.path.join(CACHE, 'target')
    shutil.rmtree(tgt, ignore_errors=True)
    logp = os.path.join(root, 'setup.log')
    cmd = ['cargo', 'kani', '-p', 'hx', '--target-dir', tgt, '--harness', 'setup_probe']
    rc, secs, to = run_cmd(cmd, dest, 1800, 16, logp)
    txt = read(logp)
    ok = 'VERIFICATION:- SUCCESSFUL' in txt
    log('[vk] setup: kani toolchain + registry deps pre-built in %.0fs: %s' % (secs, 'ok' if ok else 'FAILED'))
    if not ok:
        log(txt[-3000:])
        return 1
    shutil.rmtree(root, ignore_errors=True)
    rc = cmd_selftest_model()
    if rc != 0:
        log('[vk] setup: container-model self-test failed')
        return 1
    log('[vk] setup done in %.0fs' % (time.time() - t0))
    return 0


# ------------------------------------------------------------------ model self-test (Serval-style)
def cmd_selftest_model(cap=24):
    rc = 0
    for variant in (None, 'compact'):
        rc = max(rc, _selftest_shared(cap, variant))
    rc = max(rc, _selftest_diff())
    return rc


def _selftest_diff():
    """Native differential test of the compact map/set, Vec, inline Vec and BTreeSet models against std (model/difftest.rs)."""
    root = mkscratch('difftest')
    write(os.path.join(root, 'Cargo.toml'), '[package]\nname = "mt"\nversion = "0.0.0"\nedition = "2021"\n\n[dependencies]\nserde = { version = "1" }\n\n'
          '[lints.rust]\nunexpected_cfgs = { level = "allow" }\n\n[workspace]\n')
    shutil.copy(os.path.join(REPO, 'Cargo.lock'), os.path.join(root, 'Cargo.lock'))
    vc = read(os.path.join(VERIF, 'model', 'vcoll.rs'))
    write(os.path.join(root, 'src', 'vcoll.rs'), vc)
    write(os.path.join(root, 'src', 'lib.rs'), 'pub mod vcoll;\n')
    write(os.path.join(root, 'tests', 'difftest.rs'), read(os.path.join(VERIF, 'model', 'difftest.rs')))
    r = subprocess.run(['cargo', 'test', '--offline', '--test', 'difftest'], cwd=root, env=base_env(), stdout=subprocess.PIPE, stderr=subprocess.STDOUT, text=True)
    ok = re.findall(r'^test (\S+) \.\.\. ok', r.stdout, re.M)
    bad = re.findall(r'^test (\S+) \.\.\. FAILED', r.stdout, re.M)
    log('[vk] selftest-model (differential vs std): %d pass, %d FAILED' % (len(ok), len(bad)))
    if bad or not ok:
        log(r.stdout[-3000:])
        return 1
    shutil.rmtree(root, ignore_errors=True)
    return 0


def _selftest_shared(cap, variant):
    """Run shared's own unit tests natively with T1 applied: every test must pass or stop at the model's
    capacity panic; a wrong ANSWER is a model bug."""
    root = mkscratch('selftest')
    ssrc = os.path.join(REPO, 'shared', 'src')
    mods = sorted(f[:-3] for f in os.listdir(ssrc) if f.endswith('.rs') and f != 'lib.rs')
    job = {'name': 'selftest', 'shared_roots': mods, 't1_shared': True, 'cap': cap}
    if variant:
        job['model'] = variant
    try:
        gen_scratch('_setup', job, root, t1=True)
    except Inconclusive as e:
        log('[vk] selftest-model: %s' % e)
        return 2
    env = base_env()
    env['RUST_MIN_STACK'] = str(64 * 1024 * 1024)
    r = subprocess.run(['cargo', 'test', '--offline', '-p', 'shared', '--lib', '--', '--test-threads', '8'], cwd=root, env=env,
                       stdout=subprocess.PIPE, stderr=subprocess.STDOUT, text=True)
    out = r.stdout
    ok = re.findall(r'^test (\S+) \.\.\. ok', out, re.M)
    failed = re.findall(r'^test (\S+) \.\.\. FAILED', out, re.M)
    wrong = []
    for f in failed:
        m = re.search(r"---- %s stdout ----(.*?)(?=\n---- |\nfailures:)" % re.escape(f), out, re.S)
        txt = m.group(1) if m else ''
        if 'vcoll capacity exceeded' not in txt:
            wrong.append((f, txt.strip()[-300:]))
    log('[vk] selftest-model (%s, CAP %d): %d pass, %d stop at the capacity panic, %d WRONG' % (variant or 'holey', cap, len(ok), len(failed) - len(wrong), len(wrong)))
    for f, t in wrong:
        log('   WRONG %s: %s' % (f, t))
    if not ok and not failed:
        log(out[-3000:])
        return 2
    shutil.rmtree(root, ignore_errors=True)
    return 1 if wrong else 0


def main(argv):
    if not argv:
        print(__doc__ or 'usage: vk setup|check|replay')
        return 2
    if argv[0] == 'setup':
        return cmd_setup()
    if argv[0] == 'check':
        prop = argv[1]
        tier = os.environ.get('VERIF_TIER', 'quick')
        only, keep = [], False
        i = 2
        while i < len(argv):
            if argv[i] == '--tier':
                tier = argv[i + 1]; i += 2
            elif argv[i] == '--only':
                only.append(argv[i + 1]); i += 2
            elif argv[i] == '--keep':
                keep = True; i += 1
            else:
                raise SystemExit('unknown arg ' + argv[i])
        try:
            seed = int(os.environ.get('VERIF_SEED', '0'))
        except ValueError:
            seed = 0
        return cmd_check(prop, tier, only, keep, seed)
    if argv[0] == 'replay':
        return cmd_replay(argv[1])
    if argv[0] == 'selftest-model':
        return cmd_selftest_model(int(argv[1]) if len(argv) > 1 else 24)
    print('usage: vk setup | check <ID> [--tier quick|thorough] [--only name] | replay <file>')
    return 2
