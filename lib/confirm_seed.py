#!/usr/bin/env python3
"""confirm_seed.py <worktree> <outdir> <k> : re-confirm one seeded change delivered by a sub-agent.
 1. patch applies; 2. whole suite with patch: only the known always-failing test fails; 3. demo fails with patch;
 4. demo passes without patch.  Writes <outdir>/<k>/confirm.json."""
import sys, os, re, subprocess, json, shutil, time
wt, out, k = sys.argv[1], sys.argv[2], sys.argv[3]
d = os.path.join(out, k)
env = dict(os.environ, CARGO_NET_OFFLINE='true')
KNOWN_FAIL = {'rsp_ql_dstream_semantics'}
def sh(cmd, **kw):
    return subprocess.run(cmd, shell=True, cwd=wt, env=env, stdout=subprocess.PIPE, stderr=subprocess.STDOUT, text=True, **kw)
res = {'k': k, 'at': time.strftime('%F %T')}
sh('git checkout -- . && git clean -fdq -e target -e _out')
readme = open(os.path.join(d, 'README.md')).read()
m = re.search(r'place (?:it )?at\s+`([^`]+\.rs)`', readme) or re.search(r'`((?:shared|kolibrie|datalog)/tests/[^`]+\.rs)`', readme)
demo_path = m.group(1)
crate = demo_path.split('/')[0]
tname = os.path.splitext(os.path.basename(demo_path))[0]
res['demo_path'] = demo_path
r = sh('git apply %s' % os.path.join(d, 'patch.diff'))
res['applies'] = r.returncode == 0
t0 = time.time()
r = sh('cargo test --workspace --no-fail-fast --offline 2>&1')
open(os.path.join(d, 'confirm_suite.log'), 'w').write(r.stdout)
ok = re.findall(r'^test (\S+) \.\.\. ok', r.stdout, re.M)
failed = re.findall(r'^test (\S+) \.\.\. FAILED', r.stdout, re.M)
res['suite_s'] = round(time.time() - t0)
res['suite_ok'] = len(ok)
res['suite_failed'] = failed
res['suite_compile_error'] = bool(re.search(r'^error(\[E\d+\])?:', r.stdout, re.M)) and len(ok) < 100
res['suite_passes'] = (not res['suite_compile_error']) and all(any(kf in f for kf in KNOWN_FAIL) for f in failed) and len(ok) >= 400
os.makedirs(os.path.dirname(os.path.join(wt, demo_path)), exist_ok=True)
shutil.copy(os.path.join(d, 'demo.rs'), os.path.join(wt, demo_path))
r = sh('cargo test -p %s --test %s --offline 2>&1' % (crate, tname))
open(os.path.join(d, 'confirm_demo_with.log'), 'w').write(r.stdout)
res['demo_with_patch_fails'] = bool(re.search(r'test result: FAILED', r.stdout)) and r.returncode != 0
sh('git checkout -- .')
r = sh('cargo test -p %s --test %s --offline 2>&1' % (crate, tname))
open(os.path.join(d, 'confirm_demo_without.log'), 'w').write(r.stdout)
res['demo_without_patch_passes'] = bool(re.search(r'test result: ok', r.stdout)) and r.returncode == 0
os.remove(os.path.join(wt, demo_path))
sh('git checkout -- . && git clean -fdq -e target -e _out')
res['confirmed'] = all([res['applies'], res['suite_passes'], res['demo_with_patch_fails'], res['demo_without_patch_passes']])
json.dump(res, open(os.path.join(d, 'confirm.json'), 'w'), indent=1)
print(json.dumps(res))
