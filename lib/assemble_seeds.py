#!/usr/bin/env python3
"""assemble_seeds.py : copy confirmed sub-agent changes from /var/tmp/seeds + /tmp/seed_*/_out/*/confirm.json into /verif/seeded/<id>/
(patch.diff, demo.rs, README.md, meta.json). Detection results come from lib/seed_results.json (maintained by hand from the runs)."""
import json, os, shutil, glob
V = os.path.dirname(os.path.dirname(os.path.abspath(__file__)))
INFO = {
 'C04a-1': ('C04', 'drop_graph rewritten as a bulk retain that removes a spog entry entirely when it contained the dropped graph', 'the same triple stored in two graphs, then drop_graph of one of them, then a read served from spog for the other'),
 'C04a-2': ('C04', 'delete_quad registers the graph in the catalog before the early return', 'a delete that removes nothing, aimed at a named graph that is not (or no longer) in the catalog'),
 'C04b-1': ('C04', 'query_named_graphs gets an (S,P,?) fast path over spog that forgets to exclude the default graph', 'exactly the subject+predicate-bound shape through query_named_graphs/query_quads(None) with a default-graph triple of the same (s,p)'),
 'C04b-2': ('C04', 'build_all_indexes de-duplicates the sorted snapshot by triple instead of by quad', 'the same triple in at least two graphs, then an index rebuild'),
 'C09a-1': ('C09', 'scope rewritten with integer arithmetic (Flink-style): open bounds land on the slide grid instead of close bounds', 'a width that is not a multiple of the slide'),
 'C09a-2': ('C09', 'add_to_window evicts/assigns in place with retain(t < close), dropping the open <= t half of the membership test', 'a hopping window (slide > width) and an item falling into a gap'),
 'C09b-1': ('C09', 'scope rewritten with integer arithmetic, last window taken from the slide grid (o_last = elapsed - elapsed % slide)', 'a width that is not a multiple of the slide and an item in the last width % slide units before a slide boundary'),
 'C09b-2': ('C09', 'add_to_window evicts/assigns in place via retain, testing only event_time < window.close', 'a hopping window with width < slide and an item more than width before the next boundary'),
 'C10a-1': ('C10', 'ISTREAM rebuilds last_result only when something was emitted', 'a three-step history: a row present, then a firing with no new row in which it vanished, then the row returns'),
 'C10a-2': ('C10', 'the window processor skips store.materialize() for an empty window (materialize is the only place that evicts derived triples)', 'rules + a non-empty firing followed by an empty one (stream gap, next timestamp a multiple of the slide)'),
 'C12a-1': ('C12', 'delta_improved de-duplicated with a set seeded from the current delta: a second improvement in the same round is not re-queued', 'a fact with two derivations of different depth, the deeper living longer, consumer rule listed first'),
 'C12a-2': ('C12', 'incremental_sds_plus seeds the TagStore from all of d_base instead of d_new', 'a triple both streamed into a window and derived into it, the derivation outliving the streamed copy, two evaluations'),
 'C15a-1': ('C15', 'Dictionary::encode trims its argument', 'a term with leading/trailing (Unicode) white space'),
 'C15a-2': ('C15', 'QuotedTripleStore::encode uses saturating_add for the id counter', 'the counter at the top of the id range and two more distinct quoted triples'),
 'C15a-3': ('C15', 'reencode_term_id allocates quoted ids with a new insert_new() that skips the reverse-map lookup', 'the same quoted triple present in both databases being united'),
 'C16a-1': ('C16', 'sparql_unicode_escape_len drops the ASCII hex-digit scan before slicing &input[2..end]', 'a \\u/\\U escape with a multi-byte character straddling byte offset 6 / 10'),
 'C16a-2': ('C16', 'sparql_invalid_pn_prefix uses chars().enumerate() (character index) as byte offset', 'a candidate prefix with a multi-byte character before its first illegal character, not on a byte boundary'),
 'C16a-3': ('C16', 'sparql_skip_ws ends a # comment only at LF (split_once) - a bare CR no longer terminates it', 'a # comment terminated by a lone CR with meaningful text after it'),
}
res = json.load(open(os.path.join(V, 'lib', 'seed_results.json'))) if os.path.exists(os.path.join(V, 'lib', 'seed_results.json')) else {}
out = os.path.join(V, 'seeded')
os.makedirs(out, exist_ok=True)
rows = []
for sid in sorted(INFO):
    agent, k = sid.split('-')
    src = '/var/tmp/seeds/%s/%s' % (agent, k)
    cj = '/var/tmp/seeds/%s/%s/confirm.json' % (agent, k)
    if not (os.path.exists(src) and os.path.exists(cj)):
        continue
    c = json.load(open(cj))
    if not c.get('confirmed'):
        rows.append((sid, INFO[sid][0], 'NOT CONFIRMED', '')); continue
    d = os.path.join(out, sid)
    os.makedirs(d, exist_ok=True)
    for f in ('patch.diff', 'demo.rs', 'README.md'):
        shutil.copy(os.path.join(src, f), os.path.join(d, f))
    prop, what, needs = INFO[sid]
    meta = {'id': sid, 'property': prop, 'change': what, 'needs_to_manifest': needs, 'written_by': 'independent sub-agent (saw only the property text and its own scratch worktree)',
            'demo_path': c['demo_path'],
            'confirmed_by_me': {'worktree': 'scratch git worktree of /repo HEAD under /tmp (removed afterwards)', 'commands': ['git apply patch.diff', 'cargo test --workspace --no-fail-fast --offline', 'cargo test -p <crate> --test <demo> --offline (with patch: fails)', 'git checkout -- . ; same demo (without patch: passes)'],
                                'suite_ok_tests': c['suite_ok'], 'suite_failed': c['suite_failed'], 'demo_with_patch_fails': c['demo_with_patch_fails'], 'demo_without_patch_passes': c['demo_without_patch_passes'], 'at': c['at']},
            'detection': res.get(sid, {'status': 'not run yet'})}
    json.dump(meta, open(os.path.join(d, 'meta.json'), 'w'), indent=1)
    rows.append((sid, prop, meta['detection'].get('status'), meta['detection'].get('by', '')))
for r in rows: print(*r, sep=' | ')
