#!/bin/bash
# seedrun.sh <patch.diff> <vk args...> : apply a seeded change to /repo, run a check, ALWAYS undo the change
set -u
patch="$1"; shift
cd /verif
if [ -n "$(git -C /repo status --porcelain)" ]; then echo "seedrun: /repo is not clean"; exit 3; fi
git -C /repo apply "$patch" || { echo "seedrun: patch does not apply"; exit 3; }
trap 'git -C /repo checkout -- . ; git -C /repo clean -fdq -e target' EXIT
./vk "$@"
rc=$?
echo "seedrun: rc=$rc"
exit $rc
