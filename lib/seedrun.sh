#!/bin/bash
# seedrun.sh <patch.diff> <vk args...> : run a check against a seeded change WITHOUT touching /repo:
# a scratch git worktree of /repo's HEAD outside /repo and /verif gets the patch, the check reads it via VK_REPO.
# (equivalent to `git -C /repo apply`; run; `git -C /repo checkout -- .` -- but safe to run next to other checks)
set -u
patch="$1"; shift
wt=$(mktemp -d /var/tmp/seedwt.XXXXXX)
git -C /repo worktree add --detach -q "$wt" HEAD || exit 3
trap 'git -C /repo worktree remove --force "$wt" 2>/dev/null; rm -rf "$wt"' EXIT
git -C "$wt" apply "$patch" || { echo "seedrun: patch does not apply"; exit 3; }
cd /verif
VK_REPO="$wt" ./vk "$@"
rc=$?
echo "seedrun: rc=$rc"
exit $rc
