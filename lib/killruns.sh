#!/bin/bash
# stop every running vk check and its solver processes (pattern lives in this file, not on the caller's command line)
pkill -f 'python3 .*/vk check' ; pkill -f 'vk check' ; pkill -x cargo-kani ; pkill -x kani-driver; pkill -x cbmc ; sleep 1; pkill -9 -x cbmc
rm -rf /var/tmp/kverif.C* /var/tmp/kverif.replay.* 2>/dev/null
echo '{}' > /var/tmp/kverif.budget.json
