#!/usr/bin/env python3
"""Regenerates /verif/MANIFEST.json from harness/*/plan.json (claimed) + na.json (not applicable)."""
import json, os, glob
V = os.path.dirname(os.path.dirname(os.path.abspath(__file__)))
na = json.load(open(os.path.join(V, 'na.json')))
checks = []
claimed = []
for p in sorted(glob.glob(os.path.join(V, 'harness', 'C*', 'plan.json'))):
    plan = json.load(open(p))
    if not plan.get('registered', True):
        continue
    pid = plan['property']
    claimed.append(pid)
    checks.append({
        'property_id': pid,
        'quick_cmd': './vk check %s --tier quick' % pid,
        'thorough_cmd': './vk check %s --tier thorough' % pid,
        'evidence_file': 'evidence/%s.json' % pid,
        'replay_cmd_template': './vk replay {path}',
        'engine': 'vk-kani',
        'level_claimed': {'category': 'model_checking', 'text': plan['level_text'], 'design_ref': plan.get('design_ref', 'DESIGN.md section 3-' + pid)},
        'level_note': plan['level_note'],
        'technique': plan.get('technique', 'bounded model checking of the real Rust function bodies with Kani 0.68 (rustc MIR -> CBMC 6.11 -> CaDiCaL SAT); symbolic inputs via kani::any(), counterexamples replayed natively'),
    })
m = {
    'version': 1,
    'setup_cmd': './vk setup',
    'hooks': {'guard': 'kolibrie_verif', 'enable': 'none needed: harnesses are injected into scratch copies of the sources regenerated from /repo on every run (cfg(kani) only)',
              'baseline_off_cmd': 'cd /repo && cargo test --workspace --no-fail-fast --offline', 'source_commits': [], 'add_only': True},
    'engines': [{'name': 'vk-kani', 'path': 'vk', 'serves_properties': claimed,
                 'kind_free_text': 'python driver that regenerates harness crates from /repo working tree, runs Kani/CBMC per harness under memory/time caps, classifies, replays counterexamples natively'}],
    'checks': checks,
    'notes': 'exit 2 of a check = inconclusive (timeout/OOM/vacuity/unwinding bound/build failure/non-reproducing trace); never reported as held or violated. Known findings: /verif/known_findings.json (no open finding; one repaired defect: property C17, /repo commit b70d33a "fix: parse-error rendering must not panic on non-ASCII request text"). See DESIGN.md.',
    'not_applicable': [x for x in na if x['property_id'] not in claimed],
}
json.dump(m, open(os.path.join(V, 'MANIFEST.json'), 'w'), indent=1)
print('claimed:', claimed, 'n/a:', [x['property_id'] for x in m['not_applicable']])
