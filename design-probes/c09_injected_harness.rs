// injected at the end of a scratch copy of s2r.rs (T2)
#[cfg(kani)]
mod __verif {
    use super::*;

    static mut NFIRE: usize = 0;
    static mut FIRE_MASK: [u8; 4] = [0; 4];
    fn stub_send<T>(_s: &std::sync::mpsc::Sender<T>, t: T) -> Result<(), std::sync::mpsc::SendError<T>> { std::mem::forget(t); Ok(()) }

    #[kani::proof]
    #[kani::unwind(6)]
    #[kani::stub(std::sync::mpsc::Sender::send, stub_send)]
    fn two_adds_state_and_firing() {
        let width: usize = kani::any();
        let slide: usize = kani::any();
        kani::assume(width >= 1 && width <= 2 && slide >= 1 && slide <= 2);
        let mut report = Report::new();
        report.add(ReportStrategy::OnWindowClose);
        let mut w: CSPARQLWindow<u8> = CSPARQLWindow::new(width, slide, report, Tick::TimeDriven, String::new());
        w.register_callback(Box::new(|c: ContentContainer<u8>| unsafe {
            let mut m = 0u8;
            for it in c.iter() { m |= 1 << *it; }
            if NFIRE < 4 { FIRE_MASK[NFIRE] = m; }
            NFIRE += 1;
            std::mem::forget(c);
        }));
        let t1: usize = kani::any();
        let t2: usize = kani::any();
        kani::assume(t1 <= t2 && t2 <= 4);
        w.add_to_window(1u8, t1);
        let fired1 = unsafe { NFIRE };
        w.add_to_window(2u8, t2);
        let fired2 = unsafe { NFIRE } - fired1;
        assert!(fired1 <= 1 && fired2 <= 1);
        // state: every active window contains t2 and holds exactly the items whose ts lies in it
        for (win, c) in w.active_windows.iter() {
            assert!(win.open <= t2 && t2 < win.close);
            assert!(win.close % slide == 0);
            let has1 = win.open <= t1 && t1 < win.close;
            let mut m = 0u8;
            for it in c.iter() { m |= 1 << *it; }
            assert!(m == (if has1 { 2 } else { 0 }) | 4);
        }
        // second firing (if any) reports an aligned interval closing at or before t2 with exactly its items
        if fired2 == 1 {
            assert!(t2 > t1 || fired1 == 0);
            let m = unsafe { FIRE_MASK[fired1] };
            let mut ok = false;
            let mut c = 0usize;
            while c <= 4 {
                if c % slide == 0 && c <= t2 {
                    let lo = if c >= width { c - width } else { 0 };
                    let exp: u8 = if lo <= t1 && t1 < c { 2 } else { 0 };
                    if m == exp { ok = true; }
                }
                c += 1;
            }
            assert!(ok);
        }
        std::mem::forget(w);
    }

    #[kani::proof]
    #[kani::unwind(5)]
    #[kani::stub(std::sync::mpsc::Sender::send, stub_send)]
    fn one_add_tumbling_unit() {
        let mut report = Report::new();
        report.add(ReportStrategy::OnWindowClose);
        let mut w: CSPARQLWindow<u8> = CSPARQLWindow::new(1, 1, report, Tick::TimeDriven, String::new());
        let t1: usize = kani::any();
        kani::assume(t1 <= 4);
        w.add_to_window(1u8, t1);
        assert!(w.app_time == t1);
        for (win, c) in w.active_windows.iter() {
            assert!(win.open == t1 && win.close == t1 + 1);
            assert!(c.len() == 1);
        }
        std::mem::forget(w);
    }

    #[kani::proof]
    #[kani::unwind(5)]
    #[kani::stub(std::sync::mpsc::Sender::send, stub_send)]
    fn one_add_state_and_firing() {
        let width: usize = kani::any();
        let slide: usize = kani::any();
        kani::assume(width >= 1 && width <= 2 && slide >= 1 && slide <= 2);
        let mut report = Report::new();
        report.add(ReportStrategy::OnWindowClose);
        let mut w: CSPARQLWindow<u8> = CSPARQLWindow::new(width, slide, report, Tick::TimeDriven, String::new());
        let t1: usize = kani::any();
        kani::assume(t1 <= 4);
        w.add_to_window(1u8, t1);
        // fired iff some aligned window closes exactly at t1 (created by scope) and t1 > 0
        let fired = w.app_time == t1 && t1 > 0;
        assert!(w.app_time == 0 || w.app_time == t1);
        assert!(fired == (t1 > 0 && t1 % slide == 0));
        for (win, c) in w.active_windows.iter() {
            assert!(win.open <= t1 && t1 < win.close);
            assert!(win.close % slide == 0);
            assert!(c.len() == 1);
        }
        std::mem::forget(w);
    }

    #[kani::proof]
    #[kani::unwind(7)]
    fn scope_opens_exactly_the_aligned_windows() {
        let width: usize = kani::any();
        let slide: usize = kani::any();
        kani::assume(width >= 1 && width <= 3 && slide >= 1 && slide <= 3);
        let ts: usize = kani::any();
        kani::assume(ts <= 8);
        let mut w: CSPARQLWindow<u8> = CSPARQLWindow::new(width, slide, Report::new(), Tick::TimeDriven, String::new());
        w.scope(&ts);
        let mut n = 0usize;
        for (win, _c) in w.active_windows.iter() {
            n += 1;
            assert!(win.close % slide == 0);
            assert!(win.open == win.close.saturating_sub(width));
            assert!(win.close >= ts);
        }
        assert!(n >= 1);
        let c: usize = kani::any();
        kani::assume(c <= 11 && c % slide == 0 && c > ts && c <= ts + width);
        let key = Window { open: c.saturating_sub(width), close: c };
        assert!(w.active_windows.contains_key(&key));
        if ts % slide == 0 {
            let key = Window { open: ts.saturating_sub(width), close: ts };
            assert!(w.active_windows.contains_key(&key));
        }
        kani::cover!(n == 3);
        std::mem::forget(w);
    }
}
