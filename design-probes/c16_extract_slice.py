import re,sys
def extract_fn(src, name):
    m = re.search(r'^(pub(\([a-z]+\))?\s+)?fn\s+'+re.escape(name)+r'\b', src, re.M)
    if not m: raise SystemExit(f"fn {name} not found")
    i = src.index('{', m.end())
    depth=0; j=i
    while True:
        c=src[j]
        if c=='{': depth+=1
        elif c=='}':
            depth-=1
            if depth==0: break
        j+=1
    return src[m.start():j+1]
src=open('/repo/kolibrie/src/parser.rs').read()
out="// extracted verbatim from /repo/kolibrie/src/parser.rs\nuse nom::{IResult, Parser, character::complete::char};\n"
for n in ['sparql_skip_ws','sparql_error','sparql_name_character','sparql_keyword','sparql_char','sparql_variable','sparql_unicode_escape_len','sparql_pn_chars_base','sparql_pn_chars_u','sparql_pn_chars','sparql_invalid_pn_prefix','sparql_iri','sparql_blank_node']:
    out+=extract_fn(src,n)+"\n\n"
open('/tmp/probe9/src/extracted.rs','w').write(out)
