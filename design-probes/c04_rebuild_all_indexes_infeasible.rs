// C04 -- SparqlDatabase::build_all_indexes (kolibrie/src/sparql_database.rs), extracted verbatim (T3); `SparqlDatabase`
// is reduced to the one field the method touches. "rebuild that must preserve named quads and empty graphs".
use shared::dataset_index::{DatasetIndex, GraphId, Quad};
const N1: GraphId = GraphId::Named(1);
fn any_id() -> u32 { let x: u32 = kani::any(); kani::assume(x < 2); x }
fn any_graph() -> GraphId { if kani::any() { N1 } else { GraphId::Default } }
fn any_quad() -> Quad { Quad { subject: any_id(), predicate: any_id(), object: any_id(), graph: any_graph() } }

/// two symbolic inserts (the same triple may go to both graphs), optionally an empty named graph, then a rebuild:
/// membership of an arbitrary probe and the graph identity are unchanged
#[kani::proof]
#[kani::unwind(10)]
fn rebuild_keeps_quads_and_identities() {
    let mut db = SparqlDatabase { dataset_index: DatasetIndex::new() };
    let q1 = any_quad();
    let q2 = any_quad();
    db.dataset_index.insert_quad(&q1);
    db.dataset_index.insert_quad(&q2);
    let created: bool = kani::any();
    if created { db.dataset_index.create_graph(N1); }
    db.build_all_indexes();
    let r = any_quad();
    assert!(db.dataset_index.contains_quad(&r) == (r == q1 || r == q2), "a rebuild keeps exactly the quads written");
    assert!(db.dataset_index.graph_exists(N1) == (created || q1.graph == N1 || q2.graph == N1), "a rebuild keeps named-graph identities, also of empty graphs");
    kani::cover!(q1.graph != q2.graph && q1.subject == q2.subject && q1.predicate == q2.predicate && q1.object == q2.object, "the same triple in both graphs");
    kani::cover!(created && q1.graph == GraphId::Default && q2.graph == GraphId::Default, "an empty named graph");
    std::mem::forget(db);
}
