#[cfg(kani)]
mod proofs {
    use shared::sdd::*;

    #[kani::proof]
    #[kani::unwind(10)]
    fn sdd_tiny_budget() {
        let mut m = SddManager::new();
        m.ensure_variable(0, 0.5);
        m.ensure_variable(1, 0.25);
        let x0 = m.literal(0, true);
        let x1 = m.literal(1, true);
        let fuel: u8 = kani::any();
        let mut left = fuel;
        let mut avail = || { if left == 0 { false } else { left -= 1; true } };
        let mut budget = SddOperationBudget::new(1000, &mut avail);
        let r = m.try_apply(x0, x1, BoolOp::And, &mut budget);
        let full = m.apply(x0, x1, BoolOp::And);
        if let Ok(id) = r { assert!(id == full); }
        let w = m.wmc(full);
        assert!(w == 0.125);
        std::mem::forget(m);
    }

    // fully concrete structure: how expensive is plain symbolic execution of the SDD code?
    #[kani::proof]
    #[kani::unwind(10)]
    fn sdd_concrete_weights_symbolic() {
        let mut m = SddManager::new();
        let k0: u8 = kani::any(); let k1: u8 = kani::any();
        kani::assume(k0 <= 4 && k1 <= 4);
        m.ensure_variable(0, k0 as f64 * 0.25);
        m.ensure_variable(1, k1 as f64 * 0.25);
        let x0 = m.literal(0, true);
        let x1 = m.literal(1, true);
        let a = m.apply(x0, x1, BoolOp::Or);
        let w = m.wmc(a);
        let p0 = k0 as f64 * 0.25; let p1 = k1 as f64 * 0.25;
        assert!(w == p0 + p1 - p0 * p1);
        std::mem::forget(m);
    }
}
