#[cfg(kani)]
mod proofs {
    use shared::dataset_index::*;

    fn any_quad() -> Quad {
        let s: u32 = kani::any(); let p: u32 = kani::any(); let o: u32 = kani::any();
        kani::assume(s < 2 && p < 2 && o < 2);
        let g: u32 = kani::any();
        kani::assume(g < 2);
        Quad { subject: s, predicate: p, object: o, graph: if g == 0 { GraphId::Default } else { GraphId::Named(g) } }
    }

    #[kani::proof]
    #[kani::unwind(4)]
    fn two_ops() {
        let mut idx = DatasetIndex::new();
        let q1 = any_quad();
        idx.insert_quad(&q1);
        let q2 = any_quad();
        let del: bool = kani::any();
        let ret = if del { idx.delete_quad(&q2) } else { idx.insert_quad(&q2) };
        assert!(ret == if del { q2 == q1 } else { q2 != q1 });
        let r = any_quad();
        let expect = if del { r == q1 && r != q2 } else { r == q1 || r == q2 };
        assert!(idx.contains_quad(&r) == expect);
        // named graph identity persists after deleting the last quad
        assert!(idx.graph_exists(GraphId::Named(1)) == (q1.graph == GraphId::Named(1) || (!del && q2.graph == GraphId::Named(1))));
        std::mem::forget(idx);
    }

    #[kani::proof]
    #[kani::unwind(4)]
    fn one_insert_query_shapes() {
        let mut idx = DatasetIndex::new();
        let q1 = any_quad();
        idx.insert_quad(&q1);
        let r = any_quad();
        let bs: bool = kani::any(); let bp: bool = kani::any(); let bo: bool = kani::any();
        let res = idx.query_graph(r.graph, if bs { Some(r.subject) } else { None }, if bp { Some(r.predicate) } else { None }, if bo { Some(r.object) } else { None });
        let m = r.graph == q1.graph && (!bs || r.subject == q1.subject) && (!bp || r.predicate == q1.predicate) && (!bo || r.object == q1.object);
        assert!(res.len() == if m { 1 } else { 0 });
        if m { assert!(res[0] == q1); }
        std::mem::forget(res); std::mem::forget(idx);
    }

    #[kani::proof]
    #[kani::unwind(4)]
    fn one_insert_query_s_only() {
        let mut idx = DatasetIndex::new();
        let q1 = any_quad();
        idx.insert_quad(&q1);
        let r = any_quad();
        let res = idx.query_graph(r.graph, Some(r.subject), None, None);
        let m = r.graph == q1.graph && r.subject == q1.subject;
        assert!(res.len() == if m { 1 } else { 0 });
        if m { assert!(res[0] == q1); }
        std::mem::forget(res); std::mem::forget(idx);
    }
}
