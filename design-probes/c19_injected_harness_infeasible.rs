// injected at the end of a scratch copy of reasoning.rs (T2)
#[cfg(kani)]
mod __verif {
    use super::*;
    use shared::terms::Term;
    fn v(s: &str) -> Term { Term::Variable(s.to_string()) }

    #[kani::proof]
    #[kani::unwind(12)]
    fn repairs_three_facts() {
        let mut r = Reasoner::new();
        r.constraints.push(Rule {
            premise: vec![(Term::Constant(0), Term::Constant(0), Term::Constant(0)), (Term::Constant(0), Term::Constant(1), Term::Constant(0))],
            negative_premise: vec![], filters: vec![], conclusion: vec![],
        });
        let p1: u32 = kani::any(); let p2: u32 = kani::any(); let p3: u32 = kani::any();
        kani::assume(p1 < 3 && p2 < 3 && p3 < 3);
        kani::assume(p1 != p2 && p2 != p3 && p1 != p3);
        let mut facts: HashSet<Triple> = HashSet::new();
        facts.insert(Triple { subject: 0, predicate: p1, object: 0 });
        facts.insert(Triple { subject: 0, predicate: p2, object: 0 });
        facts.insert(Triple { subject: 0, predicate: p3, object: 0 });
        let repairs = r.compute_repairs(&facts);
        let free = Triple { subject: 0, predicate: 2, object: 0 };
        // the fact with predicate 2 is in no conflict: it must be in every repair
        let mut i = 0;
        while i < repairs.len() {
            assert!(repairs[i].contains(&free));
            i += 1;
        }
        // maximality: no repair is a strict subset of another
        let mut i = 0;
        while i < repairs.len() {
            let mut j = 0;
            while j < repairs.len() {
                if i != j { assert!(!(repairs[i].is_subset(&repairs[j]) && repairs[i] != repairs[j])); }
                j += 1;
            }
            i += 1;
        }
        std::mem::forget(repairs); std::mem::forget(facts); std::mem::forget(r);
    }
}
