// injected at the end of a scratch copy of dataset_index.rs (T2)
#[cfg(kani)]
mod __verif {
    use super::*;

    fn any_quad() -> Quad {
        let s: u32 = kani::any(); let p: u32 = kani::any(); let o: u32 = kani::any();
        kani::assume(s < 2 && p < 2 && o < 2);
        let g: bool = kani::any();
        Quad { subject: s, predicate: p, object: o, graph: if g { GraphId::Named(1) } else { GraphId::Default } }
    }
    fn in3(ix: &GraphNestedIndex, g: GraphId, a: u32, b: u32, c: u32) -> bool {
        ix.get(&g).and_then(|m| m.get(&a)).and_then(|m| m.get(&b)).is_some_and(|s| s.contains(&c))
    }

    #[kani::proof]
    #[kani::unwind(4)]
    fn four_indexes_agree_after_insert_delete() {
        let mut idx = DatasetIndex::new();
        let q1 = any_quad();
        idx.insert_quad(&q1);
        let q2 = any_quad();
        let deleted = idx.delete_quad(&q2);
        assert!(deleted == (q1 == q2));
        let r = any_quad();
        let expect = r == q1 && r != q2;
        assert!(in3(&idx.gspo, r.graph, r.subject, r.predicate, r.object) == expect);
        assert!(in3(&idx.gpos, r.graph, r.predicate, r.object, r.subject) == expect);
        assert!(in3(&idx.gosp, r.graph, r.object, r.subject, r.predicate) == expect);
        assert!(idx.contains_quad(&r) == expect);
        // emptied maps are pruned all the way up
        if deleted { assert!(idx.gspo.is_empty() && idx.gpos.is_empty() && idx.gosp.is_empty() && idx.spog.is_empty()); }
        // identity of a named graph survives the deletion of its last quad
        assert!(idx.graph_exists(GraphId::Named(1)) == (q1.graph == GraphId::Named(1)));
        kani::cover!(deleted);
        std::mem::forget(idx);
    }
}
