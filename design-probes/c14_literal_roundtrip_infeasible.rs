#![allow(dead_code)]
include!("extracted.rs");

#[cfg(kani)]
mod proofs {
    use super::*;

    fn wf2(b: &[u8; 2]) -> bool {
        (b[0] < 0x80 && b[1] < 0x80) || ((0xC2..=0xDF).contains(&b[0]) && b[1] & 0xC0 == 0x80)
    }

    #[kani::proof]
    #[kani::unwind(10)]
    fn escape_decode_roundtrip_fixed2() {
        let buf: [u8; 2] = kani::any();
        kani::assume(wf2(&buf));
        let s = unsafe { std::str::from_utf8_unchecked(&buf) };
        let esc = escape_ntriples_literal(s);
        let mut term = String::with_capacity(8);
        term.push('"');
        term.push_str(&esc);
        term.push('"');
        match decode_ntriples_literal(&term) {
            Some((v, rest)) => { assert!(v.as_bytes() == s.as_bytes()); assert!(rest.is_empty()); std::mem::forget(v); }
            None => assert!(false),
        }
        std::mem::forget(esc); std::mem::forget(term);
    }

    #[kani::proof]
    #[kani::unwind(8)]
    fn escape_decode_roundtrip_fixed1() {
        let buf: [u8; 1] = kani::any();
        kani::assume(buf[0] < 0x80);
        let s = unsafe { std::str::from_utf8_unchecked(&buf) };
        let esc = escape_ntriples_literal(s);
        let mut term = String::with_capacity(8);
        term.push('"');
        term.push_str(&esc);
        term.push('"');
        match decode_ntriples_literal(&term) {
            Some((v, rest)) => { assert!(v.as_bytes() == s.as_bytes()); assert!(rest.is_empty()); std::mem::forget(v); }
            None => assert!(false),
        }
        std::mem::forget(esc); std::mem::forget(term);
    }

    #[kani::proof]
    #[kani::unwind(10)]
    fn decode_total_fixed3() {
        let buf: [u8; 3] = kani::any();
        kani::assume(buf[0] < 0x80 && buf[1] < 0x80 && buf[2] < 0x80);
        let s = unsafe { std::str::from_utf8_unchecked(&buf) };
        if let Some((v, rest)) = decode_ntriples_literal(s) {
            assert!(buf[0] == b'"');
            assert!(rest.len() < 3);
            std::mem::forget(v);
        }
    }
}
