#![allow(dead_code)]
include!("extracted.rs");

#[cfg(kani)]
mod proofs {
    use super::*;
    use shared::provenance::{Provenance, MinMaxProbability, BooleanProvenance, AddMultProbability};

    #[kani::proof]
    #[kani::unwind(6)]
    fn reencode_nested_quoted() {
        // source: two plain terms "a","b" and a nested quoted triple << <<a b a>> b a >>
        let mut sd = Dictionary::new();
        let mut sq = QuotedTripleStore::new();
        let a = sd.encode("a"); let b = sd.encode("b");
        let x: u32 = if kani::any() { a } else { b };
        let y: u32 = if kani::any() { a } else { b };
        let inner = sq.encode(x, y, a);
        let outer = sq.encode(inner, b, y);
        // target already holds clashing ids: "b" has id 0 there, and one quoted triple
        let mut td = Dictionary::new();
        let mut tq = QuotedTripleStore::new();
        let tb = td.encode("b");
        let _pre = tq.encode(tb, tb, tb);
        let mut cache: HashMap<u32, u32> = HashMap::new();
        let which: u32 = if kani::any() { outer } else { inner };
        let t = reencode_term_id(which, &sd, &sq, &mut td, &mut tq, &mut cache);
        assert!(is_quoted_triple_id(t));
        let (ts, tp, to) = tq.decode(t).unwrap();
        if which == inner {
            assert!(td.decode(ts) == sd.decode(x) && td.decode(tp) == sd.decode(y) && td.decode(to) == Some("a"));
        } else {
            assert!(is_quoted_triple_id(ts));
            let (is_, ip, io) = tq.decode(ts).unwrap();
            assert!(td.decode(is_) == sd.decode(x) && td.decode(ip) == sd.decode(y) && td.decode(io) == Some("a"));
            assert!(td.decode(tp) == Some("b") && td.decode(to) == sd.decode(y));
        }
        let t2 = reencode_term_id(which, &sd, &sq, &mut td, &mut tq, &mut cache);
        assert!(t2 == t);
        std::mem::forget(sd); std::mem::forget(sq); std::mem::forget(td); std::mem::forget(tq); std::mem::forget(cache);
    }

    #[kani::proof]
    fn minmax_boolean_addmult_laws() {
        let a: f64 = kani::any(); let b: f64 = kani::any();
        kani::assume(a >= 0.0 && a <= 1.0 && b >= 0.0 && b <= 1.0);
        let m = MinMaxProbability;
        let c = m.conjunction(&a, &b); let d = m.disjunction(&a, &b);
        assert!((c == a || c == b) && c <= a && c <= b);
        assert!((d == a || d == b) && d >= a && d >= b);
        assert!(m.conjunction(&a, &m.one()) == a && m.disjunction(&a, &m.zero()) == a);
        assert!(m.conjunction(&a, &m.zero()) == 0.0 && m.disjunction(&a, &m.one()) == 1.0);
        let bo = BooleanProvenance;
        let x: bool = kani::any(); let y: bool = kani::any();
        assert!(bo.conjunction(&x, &y) == (x && y) && bo.disjunction(&x, &y) == (x || y) && bo.negate(&x) == !x);
        assert!(bo.tag_from_probability(a) == (a > 0.0));
        let am = AddMultProbability;
        let k: u8 = kani::any(); let l: u8 = kani::any(); kani::assume(k <= 4 && l <= 4);
        let p = k as f64 * 0.25; let q = l as f64 * 0.25;
        assert!(am.conjunction(&p, &q) == p * q);
        assert!(am.disjunction(&p, &q) == 1.0 - (1.0 - p) * (1.0 - q));
    }
}
