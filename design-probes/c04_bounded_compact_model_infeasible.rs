// C04 -- bounded histories from the empty store on the COMPACT container model + second-generation Vec model
// (DESIGN.md 2.2.1): the lookups and graph operations that were too heavy for the quick tier on the first model.
// Injected (T2) at the end of a scratch copy of shared/src/dataset_index.rs. Universe U as in index_inject.rs.
const N1: GraphId = GraphId::Named(1);
fn any_id() -> u32 { let x: u32 = kani::any(); kani::assume(x < 2); x }
fn any_graph() -> GraphId { if kani::any() { N1 } else { GraphId::Default } }
fn any_quad() -> Quad { Quad { subject: any_id(), predicate: any_id(), object: any_id(), graph: any_graph() } }
fn opt_id() -> Option<u32> { if kani::any() { Some(any_id()) } else { None } }
fn matches(r: &Quad, g: GraphId, s: Option<u32>, p: Option<u32>, o: Option<u32>) -> bool {
    r.graph == g && s.map_or(true, |x| x == r.subject) && p.map_or(true, |x| x == r.predicate) && o.map_or(true, |x| x == r.object)
}
fn in3(ix: &GraphNestedIndex, g: GraphId, a: u32, b: u32, c: u32) -> bool {
    ix.get(&g).and_then(|m| m.get(&a)).and_then(|m| m.get(&b)).is_some_and(|s| s.contains(&c))
}
fn in_spog(ix: &SpoGraphIndex, q: &Quad) -> bool {
    ix.get(&q.subject).and_then(|m| m.get(&q.predicate)).and_then(|m| m.get(&q.object)).is_some_and(|s| s.contains(&q.graph))
}
fn agree(idx: &DatasetIndex, q: &Quad) -> bool {
    let a = in3(&idx.gspo, q.graph, q.subject, q.predicate, q.object);
    a == in3(&idx.gpos, q.graph, q.predicate, q.object, q.subject)
        && a == in3(&idx.gosp, q.graph, q.object, q.subject, q.predicate)
        && a == in_spog(&idx.spog, q)
}
fn count(res: &Vec<Quad>, r: &Quad) -> usize { let mut n = 0; for x in res.iter() { if x == r { n += 1; } } n }

/// two symbolic inserts, then a lookup across named graphs in a symbolic pattern shape: exactly the matching quads
/// of the named graph, each once, never a default-graph quad
#[kani::proof]
#[kani::unwind(10)]
fn ins_ins_then_query_named_graphs() {
    let mut idx = DatasetIndex::new();
    let q1 = any_quad();
    let q2 = any_quad();
    idx.insert_quad(&q1);
    idx.insert_quad(&q2);
    let (s, p, o) = (opt_id(), opt_id(), opt_id());
    let res = idx.query_named_graphs(s, p, o, None);
    let r = any_quad();
    let expect = r.graph == N1 && (r == q1 || r == q2) && matches(&r, N1, s, p, o);
    assert!(count(&res, &r) == expect as usize, "query_named_graphs returns exactly the matching named-graph quads, each once");
    kani::cover!(q1.graph != q2.graph && q1.subject == q2.subject && q1.predicate == q2.predicate && s.is_some() && p.is_some() && o.is_none(), "(S,P,?) shape with the pair in both graphs");
    kani::cover!(res.len() == 2);
    std::mem::forget(res); std::mem::forget(idx);
}

/// two symbolic inserts, then query_quads without a graph (default + named) in a symbolic shape: each matching quad once
#[kani::proof]
#[kani::unwind(10)]
fn ins_ins_then_query_quads() {
    let mut idx = DatasetIndex::new();
    let q1 = any_quad();
    let q2 = any_quad();
    idx.insert_quad(&q1);
    idx.insert_quad(&q2);
    let (s, p, o) = (opt_id(), opt_id(), opt_id());
    let res = idx.query_quads(s, p, o, None);
    let r = any_quad();
    let expect = (r == q1 || r == q2) && matches(&r, r.graph, s, p, o);
    assert!(count(&res, &r) == expect as usize, "query_quads over all graphs returns each matching quad exactly once");
    kani::cover!(res.len() == 2 && q1.graph != q2.graph);
    std::mem::forget(res); std::mem::forget(idx);
}

/// two symbolic inserts (the same triple may go to both graphs), then clear_graph or drop_graph of a symbolic graph:
/// the other graph's quads survive in all four indexes, identity follows the textbook rule, drop_graph's result
#[kani::proof]
#[kani::unwind(10)]
fn ins_ins_then_clear_or_drop() {
    let mut idx = DatasetIndex::new();
    let q1 = any_quad();
    let q2 = any_quad();
    idx.insert_quad(&q1);
    idx.insert_quad(&q2);
    let had_n1 = q1.graph == N1 || q2.graph == N1;
    let drop_it: bool = kani::any();
    let g = any_graph();
    if drop_it {
        let ret = idx.drop_graph(g);
        assert!(ret == (g == GraphId::Default || had_n1), "drop_graph: false exactly for a missing named graph");
    } else {
        idx.clear_graph(g);
    }
    assert!(idx.graph_exists(N1) == (had_n1 && !(drop_it && g == N1)), "named-graph identity survives clear, not drop");
    let r = any_quad();
    let expect = (r == q1 || r == q2) && r.graph != g;
    assert!(idx.contains_quad(&r) == expect, "membership after clear/drop");
    assert!(agree(&idx, &r), "the four indexes agree after clear/drop");
    assert!(in3(&idx.gosp, r.graph, r.object, r.subject, r.predicate) == expect);
    kani::cover!(drop_it && q1.graph != q2.graph && q1.subject == q2.subject && q1.predicate == q2.predicate && q1.object == q2.object && g == N1, "drop of one of two graphs holding the same triple");
    kani::cover!(!drop_it && g == N1 && had_n1, "clear of a non-empty named graph");
    std::mem::forget(idx);
}

/// a delete that removes nothing, aimed at a graph that does not exist, creates no identity; graph listings agree
#[kani::proof]
#[kani::unwind(10)]
fn noop_delete_and_listing() {
    let mut idx = DatasetIndex::new();
    let q1 = any_quad();
    idx.insert_quad(&q1);
    let q2 = any_quad();
    let ret = idx.delete_quad(&q2);
    assert!(ret == (q2 == q1));
    let e = q1.graph == N1;
    assert!(idx.graph_exists(N1) == e, "a delete never creates (or removes) a graph identity");
    let named = idx.named_graphs();
    assert!((named.len() == 1) == e && named.len() <= 1, "named_graphs lists exactly the existing named graph");
    let all = idx.graphs();
    assert!(all.len() == 1 + e as usize, "graphs = default + existing named graphs");
    kani::cover!(!ret && q2.graph == N1 && !e, "no-op delete aimed at a graph that does not exist");
    std::mem::forget(named); std::mem::forget(all); std::mem::forget(idx);
}
