// injected at the end of a scratch copy of reasoning/backward_chaining.rs (T2)
#[cfg(kani)]
mod __verif {
    use super::*;

    fn any_goal_term() -> Term {
        let k: u8 = kani::any();
        kani::assume(k < 3);
        if k == 0 { Term::Variable(String::from("X")) } else if k == 1 { Term::Variable(String::from("Y")) } else { let c: u32 = kani::any(); kani::assume(c < 2); Term::Constant(c) }
    }
    fn val(t: &Term, b: &HashMap<String, Term>) -> Option<u32> { match resolve_term(t, b) { Term::Constant(c) => Some(c), _ => None } }

    #[kani::proof]
    #[kani::unwind(5)]
    fn unify_goal_with_fact() {
        let goal: TriplePattern = (any_goal_term(), any_goal_term(), any_goal_term());
        let f: (u32, u32, u32) = (kani::any(), kani::any(), kani::any());
        kani::assume(f.0 < 2 && f.1 < 2 && f.2 < 2);
        let fact: TriplePattern = (Term::Constant(f.0), Term::Constant(f.1), Term::Constant(f.2));
        let empty: HashMap<String, Term> = HashMap::new();
        let r = unify_patterns(&goal, &fact, &empty);
        // oracle: a unifier exists iff constants agree and repeated variables get equal values
        let mut x: Option<u32> = None; let mut y: Option<u32> = None; let mut ok = true;
        let gs = [&goal.0, &goal.1, &goal.2]; let fs = [f.0, f.1, f.2];
        let mut i = 0;
        while i < 3 {
            match gs[i] {
                Term::Constant(c) => { if *c != fs[i] { ok = false; } }
                Term::Variable(v) => {
                    let slot = if v.as_bytes()[0] == b'X' { &mut x } else { &mut y };
                    match *slot { Some(o) => { if o != fs[i] { ok = false; } } None => { *slot = Some(fs[i]); } }
                }
                _ => {}
            }
            i += 1;
        }
        match r {
            Some(b) => {
                assert!(ok);
                assert!(val(&goal.0, &b) == Some(f.0) && val(&goal.1, &b) == Some(f.1) && val(&goal.2, &b) == Some(f.2));
                std::mem::forget(b);
            }
            None => assert!(!ok),
        }
        std::mem::forget(goal); std::mem::forget(fact);
    }
}
