// injected at the end of a scratch copy of hybrid.rs (T2)
#[cfg(kani)]
mod __verif {
    use super::*;

    #[kani::proof]
    fn interval_new_and_config_validate() {
        let lo: f64 = kani::any(); let hi: f64 = kani::any(); let p: f64 = kani::any();
        match ProbabilityInterval::new(lo, hi) {
            Ok(i) => {
                assert!(lo >= 0.0 && hi <= 1.0 && lo <= hi);
                assert!(i.lower == lo && i.upper == hi);
                assert!(i.contains(p) == (lo <= p && p <= hi));
                assert!(i.width() >= 0.0);
            }
            Err(_) => assert!(!(lo >= 0.0 && hi <= 1.0 && lo <= hi)),
        }
        let mut c = HybridConfig::default();
        c.threshold = kani::any(); c.band_epsilon = kani::any(); c.marginal_gain_floor = kani::any();
        c.k_initial = kani::any(); c.k_max = kani::any(); c.k_growth = kani::any(); c.sdd_node_budget = kani::any();
        if c.validate().is_ok() {
            assert!(c.threshold >= 0.0 && c.threshold <= 1.0);
            assert!(c.band_epsilon >= 0.0 && c.band_epsilon <= 1.0);
            assert!(c.marginal_gain_floor >= 0.0);
            assert!(c.k_initial >= 1 && c.k_initial <= c.k_max && c.k_growth >= 2 && c.sdd_node_budget >= 2);
        }
    }

    #[kani::proof]
    #[kani::unwind(6)]
    fn interval_from_enumeration_union_bound() {
        // two independent seeds with symbolic probabilities; proofs {s0} retained, {s1} probe
        let p0: f64 = kani::any(); let p1: f64 = kani::any();
        kani::assume(p0 >= 0.0 && p0 <= 1.0 && p1 >= 0.0 && p1 <= 1.0);
        let mut reg = SeedRegistry::new();
        let a = reg.register_static(Triple { subject: 1, predicate: 1, object: 1 }, p0).unwrap();
        let b = reg.register_static(Triple { subject: 2, predicate: 1, object: 1 }, p1).unwrap();
        let seeds = reg.snapshot_all();
        let mut pr0 = Proof::new(); pr0.insert(a);
        let mut pr1 = Proof::new(); pr1.insert(b);
        let proofs = vec![pr0, pr1];
        let frontier: f64 = kani::any();
        kani::assume(frontier >= 0.0 && frontier <= 1.0);
        let exhausted: bool = kani::any();
        let residual = if exhausted { ResidualMass::Exhausted } else { ResidualMass::Bounded(frontier) };
        let r = interval_from_enumeration(p0, &proofs, 1, residual, &seeds);
        match r {
            Ok(Some(i)) => {
                assert!(i.lower == p0);
                // true probability of s0 ∨ s1 when nothing is left in the frontier
                let truth = p0 + p1 - p0 * p1;
                if exhausted { assert!(i.upper >= truth || i.upper == 1.0); }
                assert!(i.upper >= i.lower && i.upper <= 1.0);
            }
            Ok(None) => assert!(false),
            Err(_) => assert!(false),
        }
        let r2 = interval_from_enumeration(p0, &proofs, 1, ResidualMass::Unknown, &seeds);
        assert!(matches!(r2, Ok(None)));
        std::mem::forget(proofs); std::mem::forget(seeds); std::mem::forget(reg);
    }
}
