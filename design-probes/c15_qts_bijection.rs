#[cfg(kani)]
mod proofs {
    use shared::quoted_triple_store::*;

    #[kani::proof]
    #[kani::unwind(5)]
    fn qts_bijection() {
        let mut st = QuotedTripleStore::new();
        let a: (u32,u32,u32) = kani::any();
        let b: (u32,u32,u32) = kani::any();
        let ia = st.encode(a.0, a.1, a.2);
        let ib = st.encode(b.0, b.1, b.2);
        assert!(is_quoted_triple_id(ia) && is_quoted_triple_id(ib));
        assert!((ia == ib) == (a == b));
        assert!(st.decode(ia) == Some(a));
        assert!(st.decode(ib) == Some(b));
        std::mem::forget(st);
    }
}
