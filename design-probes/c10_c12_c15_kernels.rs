pub mod r2s;
#[cfg(kani)]
mod proofs {
    use shared::provenance::{ExpirationProvenance, Provenance};
    use shared::tag_store::TagStore;
    use shared::triple::Triple;
    use shared::dictionary::Dictionary;
    use crate::r2s::*;

    #[kani::proof]
    fn expiry_semiring_laws() {
        let p = ExpirationProvenance;
        let a: u64 = kani::any(); let b: u64 = kani::any(); let c: u64 = kani::any();
        assert!(p.conjunction(&a, &p.one()) == a && p.disjunction(&a, &p.zero()) == a);
        assert!(p.conjunction(&a, &p.zero()) == p.zero() && p.disjunction(&a, &p.one()) == p.one());
        assert!(p.conjunction(&a, &b) == if a < b { a } else { b });
        assert!(p.disjunction(&a, &b) == if a > b { a } else { b });
        assert!(p.conjunction(&a, &p.disjunction(&b, &c)) == p.disjunction(&p.conjunction(&a, &b), &p.conjunction(&a, &c)));
        assert!(p.is_saturated(&a, &b) == (a == b));
    }

    fn any_triple() -> Triple { Triple { subject: kani::any(), predicate: kani::any(), object: kani::any() } }

    #[kani::proof]
    #[kani::unwind(5)]
    fn tagstore_expiry_updates() {
        let mut ts = TagStore::new(ExpirationProvenance);
        let t1 = any_triple(); let t2 = any_triple();
        let e0: u64 = kani::any(); let e1: u64 = kani::any(); let e2: u64 = kani::any();
        assert!(ts.get_tag(&t1) == u64::MAX);
        ts.set_tag(&t1, e0);
        assert!(ts.get_tag(&t1) == e0);
        let ch1 = ts.update_disjunction(&t1, &e1);
        let m1 = if e1 > e0 { e1 } else { e0 };
        assert!(ch1 == (e1 > e0));
        assert!(ts.get_tag(&t1) == m1);
        let before2 = ts.get_tag(&t2);
        let ch2 = ts.update_disjunction(&t2, &e2);
        let m2 = if e2 > before2 { e2 } else { before2 };
        assert!(ch2 == (e2 > before2));
        assert!(ts.get_tag(&t2) == m2);
        if t1 != t2 { assert!(ts.get_tag(&t1) == m1); }
        std::mem::forget(ts);
    }

    fn s2(buf: &[u8; 2], len: usize) -> &str { unsafe { std::str::from_utf8_unchecked(&buf[..len]) } }

    #[kani::proof]
    #[kani::unwind(6)]
    fn dictionary_three_encodes() {
        let mut d = Dictionary::new();
        let b1: [u8; 2] = kani::any(); let b2: [u8; 2] = kani::any();
        kani::assume(b1[0] < 128 && b1[1] < 128 && b2[0] < 128 && b2[1] < 128);
        let l1: usize = if kani::any() { 1 } else { 2 };
        let l2: usize = if kani::any() { 1 } else { 2 };
        let x = s2(&b1, l1); let y = s2(&b2, l2);
        let ix = d.encode(x);
        let iy = d.encode(y);
        let ix2 = d.encode(x);
        assert!(ix == ix2);
        assert!((ix == iy) == (x == y));
        assert!(d.decode(ix) == Some(x));
        assert!(d.decode(iy) == Some(y));
        std::mem::forget(d);
    }

    #[kani::proof]
    #[kani::unwind(6)]
    fn r2s_istream_two_firings() {
        let mut op: Relation2StreamOperator<u8> = Relation2StreamOperator::new(StreamOperator::ISTREAM, 0);
        let a: [u8; 2] = kani::any(); let b: [u8; 2] = kani::any();
        kani::assume(a[0] != a[1] && b[0] != b[1]);
        let out1 = op.eval(vec![a[0], a[1]], 1);
        assert!(out1.len() == 2);
        let out2 = op.eval(vec![b[0], b[1]], 2);
        let n0 = b[0] != a[0] && b[0] != a[1];
        let n1 = b[1] != a[0] && b[1] != a[1];
        assert!(out2.len() == (n0 as usize) + (n1 as usize));
        if n0 { assert!(out2[0] == b[0]); }
        std::mem::forget(out1); std::mem::forget(out2); std::mem::forget(op);
    }
}
