#![allow(dead_code)]
include!("extracted.rs");

#[cfg(kani)]
mod proofs {
    use super::*;

    // well-formed UTF-8 of exactly 3 bytes, written as byte comparisons (no std validation)
    fn wf3(b: &[u8; 3]) -> bool {
        let a = b[0]; let c = b[1]; let d = b[2];
        let cont = |x: u8| x & 0xC0 == 0x80;
        // 1+1+1
        (a < 0x80 && c < 0x80 && d < 0x80)
        // 1+2
        || (a < 0x80 && (0xC2..=0xDF).contains(&c) && cont(d))
        // 2+1
        || ((0xC2..=0xDF).contains(&a) && cont(c) && d < 0x80)
        // 3
        || (a == 0xE0 && (0xA0..=0xBF).contains(&c) && cont(d))
        || ((0xE1..=0xEC).contains(&a) && cont(c) && cont(d))
        || (a == 0xED && (0x80..=0x9F).contains(&c) && cont(d))
        || ((0xEE..=0xEF).contains(&a) && cont(c) && cont(d))
    }

    #[kani::proof]
    #[kani::unwind(6)]
    #[kani::stub(char::is_alphanumeric, stub_alnum)]
    #[kani::stub(char::is_whitespace, stub_ws)]
    fn iri_fixed3() {
        let buf: [u8; 3] = kani::any();
        kani::assume(wf3(&buf));
        let s = unsafe { std::str::from_utf8_unchecked(&buf) };
        match sparql_iri(s) {
            Ok((rest, tok)) => {
                assert!(tok.as_bytes()[0] == b'<' && tok.as_bytes()[tok.len()-1] == b'>');
                assert!(tok.len() + rest.len() <= 3);
            }
            Err(_) => {}
        }
    }

    fn proxy(c: char) -> bool { (c as u32) & 1 == 1 }
    fn stub_alnum(c: char) -> bool { if (c as u32) < 128 { let b = c as u8; (b >= b'0' && b <= b'9') || (b >= b'a' && b <= b'z') || (b >= b'A' && b <= b'Z') } else { proxy(c) } }
    fn stub_ws(c: char) -> bool { if (c as u32) < 128 { let b = c as u8; b == b' ' || (b >= 9 && b <= 13) } else { (c as u32) & 3 == 2 } }

    #[kani::proof]
    #[kani::unwind(6)]
    #[kani::stub(char::is_alphanumeric, stub_alnum)]
    #[kani::stub(char::is_whitespace, stub_ws)]
    fn var_fixed3() {
        let buf: [u8; 3] = kani::any();
        kani::assume(wf3(&buf));
        let s = unsafe { std::str::from_utf8_unchecked(&buf) };
        if let Ok((rest, tok)) = sparql_variable(s) {
            assert!(tok.len() >= 2);
            assert!(tok.len() + rest.len() <= 3);
        }
    }

    #[kani::proof]
    #[kani::unwind(6)]
    #[kani::stub(char::is_alphanumeric, stub_alnum)]
    #[kani::stub(char::is_alphabetic, stub_alnum)]
    #[kani::stub(char::is_whitespace, stub_ws)]
    fn blank_fixed3() {
        let buf: [u8; 3] = kani::any();
        kani::assume(wf3(&buf));
        let s = unsafe { std::str::from_utf8_unchecked(&buf) };
        if let Ok((rest, tok)) = sparql_blank_node(s) {
            assert!(tok.len() >= 1);
            assert!(tok.len() + rest.len() <= 3);
        }
    }


    #[kani::proof]
    #[kani::unwind(6)]
    #[kani::stub(char::is_alphanumeric, stub_alnum)]
    #[kani::stub(char::is_alphabetic, stub_alnum)]
    #[kani::stub(char::is_whitespace, stub_ws)]
    fn pname_fixed3() {
        let buf: [u8; 3] = kani::any();
        kani::assume(wf3(&buf));
        let s = unsafe { std::str::from_utf8_unchecked(&buf) };
        if let Ok((rest, tok)) = sparql_prefixed_name(s) {
            assert!(tok.len() >= 1);
            assert!(tok.len() + rest.len() <= 3);
        }
    }


    #[kani::proof]
    #[kani::unwind(6)]
    #[kani::stub(char::is_alphanumeric, stub_alnum)]
    #[kani::stub(char::is_alphabetic, stub_alnum)]
    #[kani::stub(char::is_whitespace, stub_ws)]
    fn num_fixed3() {
        let buf: [u8; 3] = kani::any();
        kani::assume(wf3(&buf));
        let s = unsafe { std::str::from_utf8_unchecked(&buf) };
        if let Ok((rest, tok)) = sparql_numeric_literal(s) {
            assert!(tok.len() >= 1);
            assert!(tok.len() + rest.len() <= 3);
        }
    }


    #[kani::proof]
    #[kani::unwind(6)]
    #[kani::stub(char::is_whitespace, stub_ws)]
    fn skipws_fixed3() {
        let buf: [u8; 3] = kani::any();
        kani::assume(wf3(&buf));
        let s = unsafe { std::str::from_utf8_unchecked(&buf) };
        let r = sparql_skip_ws(s);
        assert!(r.len() <= 3);
        assert!(s.as_bytes()[3 - r.len()..] == *r.as_bytes());
    }

    fn wf2(b: &[u8; 2]) -> bool { (b[0] < 0x80 && b[1] < 0x80) || ((0xC2..=0xDF).contains(&b[0]) && b[1] & 0xC0 == 0x80) }

    #[kani::proof]
    #[kani::unwind(5)]
    #[kani::stub(char::is_alphanumeric, stub_alnum)]
    #[kani::stub(char::is_alphabetic, stub_alnum)]
    #[kani::stub(char::is_whitespace, stub_ws)]
    fn iri_fixed2() {
        let buf: [u8; 2] = kani::any();
        kani::assume(wf2(&buf));
        let s = unsafe { std::str::from_utf8_unchecked(&buf) };
        if let Ok((rest, tok)) = sparql_iri(s) {
            assert!(tok.len() >= 1);
            assert!(tok.len() + rest.len() <= 2);
        }
    }

    #[kani::proof]
    #[kani::unwind(5)]
    #[kani::stub(char::is_alphanumeric, stub_alnum)]
    #[kani::stub(char::is_alphabetic, stub_alnum)]
    #[kani::stub(char::is_whitespace, stub_ws)]
    fn pname_fixed2() {
        let buf: [u8; 2] = kani::any();
        kani::assume(wf2(&buf));
        let s = unsafe { std::str::from_utf8_unchecked(&buf) };
        if let Ok((rest, tok)) = sparql_prefixed_name(s) {
            assert!(tok.len() >= 1);
            assert!(tok.len() + rest.len() <= 2);
        }
    }
}
